"""txcheck.py -- the translation cross-check: the translated source, run, against the real code.

The source ties prove theorems about what translate/py2v.py makes of the source, read through coq/tie/PyPrims.v.  Both are
trusted.  This module checks them the direct way: the same frames (message objects of the real protobuf classes) are handed to

  * the real pyjelly code under CPython -- options_from_frame, the generic adapter class for the physical type, Decoder(adapter),
    decoder.iter_rows(frame) per frame -- and
  * the GENERATED Gallina of that very code (coq/tie/TxRun.v: tx_reader), evaluated by vm_compute inside coqc,

and every object yielded, frame by frame, and the class of the exception that ends a frame, must be equal.  Inputs: streams
of the reference encoder (all term kinds, quoted triples, the three physical types, tables at their edge), as they are and
with one mutation (a row dropped, duplicated or moved, a slot cleared, an index changed), so that the refusals are compared too.
Sampling, not proof: it validates the trusted layer of the ties.
"""
from __future__ import annotations

import random

EXNS = {"KeyError", "IndexError", "AssertionError", "TypeError", "ValueError", "JellyConformanceError", "JellyAssertionError",
        "JellyNotImplementedError", "StopIteration", "NotImplementedError", "ZeroDivisionError", "AttributeError", "RecursionError", "RuntimeError"}


def nlist(s: str) -> str:
    return "[" + "; ".join(str(b) for b in s.encode("utf-8", "surrogatepass")) + "]%N"


def pb_lit(m) -> str:
    """A protobuf message object as a PyPrims value: the fields that are present (ListFields), by name."""
    parts = []
    for fd, v in m.ListFields():
        if fd.message_type is not None and fd.message_type.GetOptions().map_entry:
            continue  # the metadata map: iter_rows does not read it
        if fd.is_repeated:
            parts.append(f'("{fd.name}"%string, PRep [' + "; ".join(pb_lit(x) for x in v) + "])")
        elif fd.type == fd.TYPE_MESSAGE:
            parts.append(f'("{fd.name}"%string, {pb_lit(v)})')
        elif fd.type == fd.TYPE_STRING:
            parts.append(f'("{fd.name}"%string, PStr {nlist(v)})')
        elif fd.type == fd.TYPE_BOOL:
            parts.append(f'("{fd.name}"%string, PBool {"true" if v else "false"})')
        elif fd.type in (fd.TYPE_UINT32, fd.TYPE_INT32, fd.TYPE_ENUM, fd.TYPE_UINT64, fd.TYPE_INT64):
            parts.append(f'("{fd.name}"%string, PInt ({int(v)}))')
        else:
            raise ValueError(f"field type {fd.type}")
    return f'(PMsg "{m.DESCRIPTOR.name}" [' + "; ".join(parts) + "])"


def obj_lit(x) -> str:
    from pyjelly.integrations.generic import generic_sink as gs

    if isinstance(x, gs.IRI):
        return f"(@O_IRI SN {nlist(x._iri)})"
    if isinstance(x, gs.BlankNode):
        return f"(@O_BlankNode SN {nlist(x._identifier)})"
    if isinstance(x, gs.Literal):
        def o(v):
            return "None" if v is None else f"(Some {nlist(v)})"
        return f"(@O_Literal SN {nlist(x._lex)} {o(x._langtag)} {o(x._datatype)})"
    if isinstance(x, gs.Quad):
        return "(@O_Quad SN " + " ".join(obj_lit(t) for t in x) + ")"
    if isinstance(x, gs.Triple):
        return "(@O_Triple SN " + " ".join(obj_lit(t) for t in x) + ")"
    if isinstance(x, gs.Prefix):
        return f"(@O_Prefix SN {nlist(x.prefix)} {obj_lit(x.iri)})"
    if x is gs.DefaultGraph:
        return "(@O__DefaultGraph SN)"
    if x is None:
        return "(@O_None SN)"
    if isinstance(x, str):
        return f"(@O_str SN {nlist(x)})"
    raise ValueError(f"object {type(x)}")


def run_impl(frames) -> tuple[list, str | None]:
    """The real code on the frames: options_from_frame on the first one, then parse_jelly_flat(frames=.., options=..) consumed to
    its end: (everything yielded, the exception class that ended it)."""
    from pyjelly.integrations.generic import parse as gp
    from pyjelly.parse.decode import options_from_frame

    ys: list = []
    try:
        opts = options_from_frame(frames[0], delimited=True)
    except Exception as e:  # noqa: BLE001
        return [], type(e).__name__
    try:
        for y in gp.parse_jelly_flat(None, frames=list(frames), options=opts):
            ys.append(y)
    except Exception as e:  # noqa: BLE001
        return ys, type(e).__name__
    return ys, None


def mutate(rng: random.Random, frames: list) -> str:
    """One change to the rows of a valid stream (in place)."""
    rows = [(fi, ri) for fi, f in enumerate(frames) for ri in range(len(f.rows))]
    if not rows:
        return "none"
    fi, ri = rng.choice(rows)
    f = frames[fi]
    kind = rng.choice(["drop", "dup", "swap", "clear_slot", "bump", "unset", "zero_dt", "foreign", "options_again", "first_slot", "quoted_slot",
                       "graph_end"])
    row = f.rows[ri]
    from pyjelly import jelly as _j
    if kind == "foreign":
        # a row of another physical type (a quad in a triples stream, a graph start / end where there are none)
        new = _j.RdfStreamRow()
        which = rng.choice(["quad", "triple", "graph_start", "graph_end"])
        if which == "quad":
            new.quad.s_bnode = "b"
            new.quad.p_bnode = "p"
            new.quad.o_bnode = "o"
            new.quad.g_bnode = "g"
        elif which == "triple":
            new.triple.s_bnode = "b"
            new.triple.p_bnode = "p"
            new.triple.o_bnode = "o"
        elif which == "graph_start":
            rng.choice([lambda: new.graph_start.g_default_graph.SetInParent(), lambda: setattr(new.graph_start, "g_bnode", "g"),
                        lambda: new.graph_start.SetInParent()])()
        else:
            new.graph_end.SetInParent()
        f.rows.insert(ri, new)
        return kind
    if kind == "options_again":
        new = _j.RdfStreamRow()
        src = next((r_.options for fr in frames for r_ in fr.rows if r_.WhichOneof("row") == "options"), None)
        if src is None:
            return "none"
        new.options.CopyFrom(src)
        what = rng.choice(["same", "version", "phys", "name", "maxn", "logical"])
        if what == "version":
            new.options.version = src.version + rng.choice([-1, 1])if src.version else 1
        elif what == "phys":
            new.options.physical_type = 1 + src.physical_type % 3
        elif what == "name":
            new.options.stream_name = src.stream_name + "x"
        elif what == "maxn":
            new.options.max_name_table_size = src.max_name_table_size + 1
        elif what == "logical":
            new.options.logical_type = rng.choice([0, 1, 2, 3, 4])
        f.rows.insert(ri + 1, new)
        return kind
    if kind == "first_slot":
        # the first statement of the stream leaves a term out
        for fr in frames:
            for r_ in fr.rows:
                w = r_.WhichOneof("row")
                if w in ("triple", "quad"):
                    st = getattr(r_, w)
                    oneof = rng.choice(["subject", "predicate", "object"] + (["graph"] if w == "quad" else []))
                    fld = st.WhichOneof(oneof)
                    if fld:
                        st.ClearField(fld)
                    return kind
        return "none"
    if kind == "quoted_slot":
        for fr in frames:
            for r_ in fr.rows:
                w = r_.WhichOneof("row")
                if w in ("triple", "quad"):
                    st = getattr(r_, w)
                    for fld in ("s_triple_term", "o_triple_term", "p_triple_term"):
                        if st.HasField(fld):
                            q = getattr(st, fld)
                            one = q.WhichOneof(rng.choice(["subject", "predicate", "object"]))
                            if one:
                                q.ClearField(one)
                            return kind
        return "none"
    if kind == "graph_end":
        new = _j.RdfStreamRow()
        new.graph_end.SetInParent()
        f.rows.insert(ri, new)
        return kind
    if kind == "drop":
        del f.rows[ri]
    elif kind == "dup":
        f.rows.insert(ri, row)
    elif kind == "swap" and ri + 1 < len(f.rows):
        a, b = type(row)(), type(row)()
        a.CopyFrom(f.rows[ri])
        b.CopyFrom(f.rows[ri + 1])
        f.rows[ri].CopyFrom(b)
        f.rows[ri + 1].CopyFrom(a)
    elif kind == "clear_slot":
        w = row.WhichOneof("row")
        if w in ("triple", "quad"):
            st = getattr(row, w)
            oneof = rng.choice(["subject", "predicate", "object"] + (["graph"] if w == "quad" else []))
            fld = st.WhichOneof(oneof)
            if fld:
                st.ClearField(fld)
    elif kind == "bump":
        w = row.WhichOneof("row")
        if w in ("name", "prefix", "datatype"):
            getattr(row, w).id = rng.choice([0, getattr(row, w).id + 1, 5000])
        elif w in ("triple", "quad"):
            st = getattr(row, w)
            for fld in ("s_iri", "p_iri", "o_iri"):
                if st.HasField(fld):
                    getattr(st, fld).name_id = rng.choice([0, getattr(st, fld).name_id + 1, 4097])
                    break
    elif kind == "unset":
        row.Clear()
    elif kind == "zero_dt":
        w = row.WhichOneof("row")
        if w in ("triple", "quad"):
            st = getattr(row, w)
            if st.HasField("o_literal"):
                st.o_literal.datatype = rng.choice([0, 1, 4000])
    return kind


def gen_cases(ctx, n: int) -> tuple[list[str], dict]:
    """n cases as Coq statements `tx_reader [frames] = [results]` (the right-hand side is what the real code did)."""
    import fam_parse

    rng = ctx.rng
    cases: list[str] = []
    stats = {"valid": 0, "mutated": 0, "exceptions": {}, "yields": 0, "skipped": 0}
    tries = 0
    while stats["valid"] + stats["mutated"] < n and tries < 6 * n:
        tries += 1
        rs = fam_parse.ref_stream(ctx)
        if rs is None:
            continue
        frames = rs["frames"]
        if not frames or not any(len(f.rows) for f in frames):
            continue
        # (frames leading with no rows: options_from_frame raises IndexError on frame.rows[0] -- kept, both sides must agree)
        mutated = rng.random() < 0.5
        if mutated:
            mutate(rng, frames)
        res = run_impl(frames)
        try:
            fms = "[" + "; ".join(pb_lit(f) for f in frames) + "]"
            ys, exc = res
            if exc is not None and exc not in EXNS:
                raise ValueError(exc)
            ylit = "[" + "; ".join("None" if y is None else f"Some {obj_lit(y)}" for y in ys) + "]"
            rhs = f"({ylit}, {'None' if exc is None else 'Some ' + exc})"
            stats["yields"] += len(ys)
            if exc:
                stats["exceptions"][exc] = stats["exceptions"].get(exc, 0) + 1
        except ValueError:
            stats["skipped"] += 1
            continue
        stats["mutated" if mutated else "valid"] += 1
        cases.append(f"tx_reader {fms} = {rhs}")
        if exc is None and frames[0].rows and frames[0].rows[0].HasField("options"):
            # the same stream through the grouped parser and parse_jelly_to_graph: the real ones from the bytes (their own
            # get_options_and_frames), the translated ones from the options of the first frame and the frames
            g = run_grouped(frames)
            if g is not None:
                def sink_lit(k):
                    st = "[" + "; ".join(obj_lit(x) for x in k.store) + "]"
                    ns = "[" + "; ".join(f"({nlist(p_)}, {obj_lit(i_)})" for p_, i_ in k.namespaces) + "]"
                    return f"({st}, {ns})"
                try:
                    cases.append(f"tx_grouped {fms} = Some [" + "; ".join(sink_lit(k) for k in g[0]) + "]")
                    cases.append(f"tx_to_graph {fms} = Some {sink_lit(g[1])}")
                    stats["grouped"] = stats.get("grouped", 0) + 1
                    stats["sinks"] = stats.get("sinks", 0) + len(g[0])
                except ValueError:
                    pass
    return cases, stats


def run_grouped(frames):
    import io

    from pyjelly.integrations.generic import parse as gp
    from pyjelly.serialize.ioutils import write_delimited

    buf = io.BytesIO()
    for f in frames:
        write_delimited(f, buf)
    try:
        sinks = list(gp.parse_jelly_grouped(io.BytesIO(buf.getvalue())))
        one = gp.parse_jelly_to_graph(io.BytesIO(buf.getvalue()))
    except Exception:  # noqa: BLE001
        return None
    return sinks, one


def pb_canon_lit(m) -> str:
    """A message object as the canonical PyPrims value (TxRun.pb_canon): present fields, sorted by name."""
    parts = []
    for fd, v in sorted(m.ListFields(), key=lambda x: x[0].name):
        if fd.message_type is not None and fd.message_type.GetOptions().map_entry:
            continue
        if fd.is_repeated:
            if len(v):
                parts.append(f'("{fd.name}"%string, PRep [' + "; ".join(pb_canon_lit(x) for x in v) + "])")
        elif fd.type == fd.TYPE_MESSAGE:
            parts.append(f'("{fd.name}"%string, {pb_canon_lit(v)})')
        elif fd.type == fd.TYPE_STRING:
            parts.append(f'("{fd.name}"%string, PStr {nlist(v)})')
        elif fd.type == fd.TYPE_BOOL:
            parts.append(f'("{fd.name}"%string, PBool {"true" if v else "false"})')
        else:
            parts.append(f'("{fd.name}"%string, PInt ({int(v)}))')
    return f'(PMsg "{m.DESCRIPTOR.name}" [' + "; ".join(parts) + "])"


def oneof_members() -> list[str]:
    from pyjelly.jelly import rdf_pb2 as pb

    names = set()
    for md in pb.DESCRIPTOR.message_types_by_name.values():
        for o in md.oneofs:
            names |= {(md.name, f.name) for f in o.fields}
    return sorted(names)


def run_writer(quads: bool, cfg: dict, ns: list, stmts: list):
    """The real writer chain: options, GenericSinkTermEncoder, TripleStream / QuadStream, enroll, declarations, one call per
    statement, then what the flow still holds."""
    from pyjelly.integrations.generic.serialize import GenericSinkTermEncoder
    from pyjelly.options import LookupPreset, StreamParameters
    from pyjelly.serialize.streams import QuadStream, SerializerOptions, TripleStream

    frames = []
    try:
        preset = LookupPreset(max_names=cfg["maxn"], max_prefixes=cfg["maxp"], max_datatypes=cfg["maxd"])
        params = StreamParameters(generalized_statements=cfg["gen"], rdf_star=cfg["star"], version=cfg["version"], delimited=cfg["delimited"],
                                  namespace_declarations=cfg["nd"], stream_name=cfg["name"])
        opts = SerializerOptions(flow=None, frame_size=cfg["frame_size"], logical_type=cfg["logical"], params=params, lookup_preset=preset)
        enc = GenericSinkTermEncoder(lookup_preset=preset)
        stream = (QuadStream if quads else TripleStream)(encoder=enc, options=opts)
        stream.enroll()
        for a, b in ns:
            stream.namespace_declaration(name=a, iri=b)
    except Exception as e:  # noqa: BLE001
        return [], type(e).__name__
    for st in stmts:
        try:
            fr = stream.quad(st) if quads else stream.triple(st)
        except Exception as e:  # noqa: BLE001
            return frames, type(e).__name__
        if fr:
            frames.append(fr)
    try:
        last = stream.flow.to_stream_frame()
    except Exception as e:  # noqa: BLE001
        return frames, type(e).__name__
    if last:
        frames.append(last)
    return frames, None


def gen_writer_cases(ctx, n: int) -> tuple[list[str], dict]:
    import gen as genmod

    r = ctx.rng
    cases: list[str] = []
    stats = {"streams": 0, "frames": 0, "exceptions": {}, "skipped": 0}
    oo = "[" + "; ".join(f'("{a}"%string, "{b}"%string)' for a, b in oneof_members()) + "]"
    tries = 0
    while len(cases) < n and tries < 6 * n:
        tries += 1
        quads = r.random() < 0.5
        g = genmod.Gen(r, nprefix=r.randint(1, 5), nname=r.randint(2, 6), ndt=r.randint(1, 3))
        stmts = g.statements(r.choice([1, 2, 4, 8, 12]), 4 if quads else 3)
        need = genmod.table_need(stmts)
        odd = r.random() < 0.2  # one stream in five: a configuration that may be refused, or tables too small for a statement
        cfg = {
            "maxn": r.choice([8, 4097, 7, max(8, need[0])]) if odd else r.choice([max(8, need[0] + need[1] + 2), 4000, 4096]),
            "maxp": r.choice([1, 5000, 0]) if odd else r.choice([0, max(1, need[1]), max(1, need[1]) + 1, 150]),
            "maxd": r.choice([0, 1, 5000]) if odd else r.choice([max(1, need[2]), max(1, need[2]) + 1, 32]),
            "gen": r.random() < 0.5, "star": r.random() < 0.5, "version": r.choice([0, 1, 2, 3] if odd else [0, 1, 2]), "delimited": r.random() < 0.7,
            "nd": r.random() < 0.4, "name": r.choice(["", "s", "näme"]),
            "frame_size": r.choice([1, 2, 3, 250]),
            "logical": r.choice([0, 1, 2, 3, 4, 13, 14, 114, 7]) if odd else r.choice([0, 2, 4] if quads else [0, 1, 3]),
        }
        ns = g.namespaces(r.randint(0, 2)) if cfg["nd"] and r.random() < 0.8 else []
        frames, exc = run_writer(quads, cfg, ns, [list(s) for s in stmts])
        if exc is not None and exc not in EXNS:
            stats["skipped"] += 1
            continue
        try:
            st_lit = "[" + "; ".join("[" + "; ".join(obj_lit(t) for t in s) + "]" for s in stmts) + "]"
        except ValueError:
            stats["skipped"] += 1
            continue
        ns_lit = "[" + "; ".join(f"({nlist(a)}, {nlist(b)})" for a, b in ns) + "]"
        b = lambda x: "true" if x else "false"  # noqa: E731
        lhs = (f"tx_writer {oo} {b(quads)} ({cfg['maxn']}) ({cfg['maxp']}) ({cfg['maxd']}) {b(cfg['gen'])} {b(cfg['star'])} ({cfg['version']}) "
               f"{b(cfg['delimited'])} {b(cfg['nd'])} {nlist(cfg['name'])} ({cfg['frame_size']}) ({cfg['logical']}) {ns_lit} {st_lit}")
        rhs = "([" + "; ".join(pb_canon_lit(f) for f in frames) + "], " + ("None" if exc is None else f"Some {exc}") + ")"
        cases.append(f"{lhs} = {rhs}")
        stats["streams"] += 1
        stats["frames"] += len(frames)
        if exc:
            stats["exceptions"][exc] = stats["exceptions"].get(exc, 0) + 1
    return cases, stats


def run_driver(phys: int, cfg: dict, ns: list, stmts: list):
    """The real writer drivers: a GenericStatementSink with the bindings and the statements, the stream for the physical type,
    then triples_stream_frames / quads_stream_frames / graphs_stream_frames(stream, sink) consumed to the end or to its exception."""
    from pyjelly.integrations.generic import generic_sink as gs
    from pyjelly.integrations.generic import serialize as ser
    from pyjelly.options import LookupPreset, StreamParameters
    from pyjelly.serialize.streams import GraphStream, QuadStream, SerializerOptions, TripleStream

    frames = []
    try:
        preset = LookupPreset(max_names=cfg["maxn"], max_prefixes=cfg["maxp"], max_datatypes=cfg["maxd"])
        params = StreamParameters(generalized_statements=cfg["gen"], rdf_star=cfg["star"], version=cfg["version"], delimited=cfg["delimited"],
                                  namespace_declarations=cfg["nd"], stream_name=cfg["name"])
        opts = SerializerOptions(flow=None, frame_size=cfg["frame_size"], logical_type=cfg["logical"], params=params, lookup_preset=preset)
        enc = ser.GenericSinkTermEncoder(lookup_preset=preset)
        stream = {1: TripleStream, 2: QuadStream, 3: GraphStream}[phys](encoder=enc, options=opts)
        sink = gs.GenericStatementSink()
        for a, b in ns:
            sink.bind(a, gs.IRI(b))
        for st in stmts:
            sink.add(st)
        it = {1: ser.triples_stream_frames, 2: ser.quads_stream_frames, 3: ser.graphs_stream_frames}[phys](stream, sink)
    except Exception as e:  # noqa: BLE001
        return [], type(e).__name__
    while True:
        try:
            frames.append(next(it))
        except StopIteration:
            return frames, None
        except Exception as e:  # noqa: BLE001
            return frames, type(e).__name__


def gen_driver_cases(ctx, n: int) -> tuple[list[str], dict]:
    import gen as genmod
    from pyjelly.integrations.generic import generic_sink as gs

    r = ctx.rng
    cases: list[str] = []
    stats = {"streams": 0, "frames": 0, "exceptions": {}, "skipped": 0, "by_driver": {"triples": 0, "quads": 0, "graphs": 0}, "mixed_sinks": 0}
    oo = "[" + "; ".join(f'("{a}"%string, "{b}"%string)' for a, b in oneof_members()) + "]"
    tries = 0
    while len(cases) < n and tries < 6 * n:
        tries += 1
        phys = r.choice([1, 2, 3])
        g = genmod.Gen(r, nprefix=r.randint(1, 5), nname=r.randint(2, 6), ndt=r.randint(1, 3))
        arity = 3 if phys == 1 else 4
        raw = g.statements(r.choice([0, 1, 2, 4, 8, 12]), arity, prepeat=0.7 if phys == 3 else 0.55)
        stmts = [gs.Triple(*s) if arity == 3 else gs.Quad(*s) for s in raw]
        mixed = r.random() < 0.12 and stmts
        if mixed:  # a statement of the other kind somewhere in the sink
            j = r.randrange(len(stmts))
            stmts[j] = gs.Quad(*stmts[j], gs.DefaultGraph) if arity == 3 else gs.Triple(*stmts[j][:3])
            stats["mixed_sinks"] += 1
        need = genmod.table_need(raw)
        odd = r.random() < 0.15
        cfg = {
            "maxn": r.choice([8, 4097, 7, max(8, need[0])]) if odd else r.choice([max(8, need[0] + need[1] + 2), 4000, 4096]),
            "maxp": r.choice([1, 5000, 0]) if odd else r.choice([0, max(1, need[1]), max(1, need[1]) + 1, 150]),
            "maxd": r.choice([0, 1, 5000]) if odd else r.choice([max(1, need[2]), max(1, need[2]) + 1, 32]),
            "gen": r.random() < 0.5, "star": r.random() < 0.5, "version": r.choice([0, 1, 2, 3] if odd else [0, 1, 2]), "delimited": r.random() < 0.7,
            "nd": r.random() < 0.5, "name": r.choice(["", "s", "näme"]),
            "frame_size": r.choice([1, 2, 3, 250]),
            "logical": r.choice([0, 1, 2, 3, 4, 13, 14, 114, 7]) if odd else r.choice({1: [0, 1, 3], 2: [0, 2, 4], 3: [0, 2, 3, 4]}[phys]),
        }
        ns = g.namespaces(r.randint(0, 3)) if r.random() < 0.7 else []
        frames, exc = run_driver(phys, cfg, ns, stmts)
        if exc is not None and exc not in EXNS:
            stats["skipped"] += 1
            continue
        try:
            st_lit = "[" + "; ".join(obj_lit(s) for s in stmts) + "]"
        except ValueError:
            stats["skipped"] += 1
            continue
        ns_lit = "[" + "; ".join(f"({nlist(a)}, {nlist(b)})" for a, b in ns) + "]"
        b = lambda x: "true" if x else "false"  # noqa: E731
        lhs = (f"tx_driver {oo} ({phys}) ({cfg['maxn']}) ({cfg['maxp']}) ({cfg['maxd']}) {b(cfg['gen'])} {b(cfg['star'])} ({cfg['version']}) "
               f"{b(cfg['delimited'])} {b(cfg['nd'])} {nlist(cfg['name'])} ({cfg['frame_size']}) ({cfg['logical']}) {ns_lit} {st_lit}")
        rhs = "([" + "; ".join(pb_canon_lit(f) for f in frames) + "], " + ("None" if exc is None else f"Some {exc}") + ")"
        cases.append(f"{lhs} = {rhs}")
        stats["streams"] += 1
        stats["frames"] += len(frames)
        stats["by_driver"][{1: "triples", 2: "quads", 3: "graphs"}[phys]] += 1
        if exc:
            stats["exceptions"][exc] = stats["exceptions"].get(exc, 0) + 1
    return cases, stats


def run_grouped_writer(cfg: dict | None, groups: list):
    """The real grouped_stream_to_frames on GenericStatementSinks (options given or guessed), consumed to the end or to its exception."""
    from pyjelly.integrations.generic import generic_sink as gs
    from pyjelly.integrations.generic import serialize as ser
    from pyjelly.options import LookupPreset, StreamParameters
    from pyjelly.serialize.streams import SerializerOptions

    frames = []
    try:
        opts = None
        if cfg is not None:
            preset = LookupPreset(max_names=cfg["maxn"], max_prefixes=cfg["maxp"], max_datatypes=cfg["maxd"])
            params = StreamParameters(generalized_statements=cfg["gen"], rdf_star=cfg["star"], version=cfg["version"], delimited=cfg["delimited"],
                                      namespace_declarations=cfg["nd"], stream_name=cfg["name"])
            opts = SerializerOptions(flow=None, frame_size=cfg["frame_size"], logical_type=cfg["logical"], params=params, lookup_preset=preset)
        sinks = []
        for ns, stmts in groups:
            k = gs.GenericStatementSink()
            for a, b in ns:
                k.bind(a, gs.IRI(b))
            for st in stmts:
                k.add(st)
            sinks.append(k)
        it = ser.grouped_stream_to_frames((x for x in sinks), opts)
    except Exception as e:  # noqa: BLE001
        return [], type(e).__name__
    while True:
        try:
            frames.append(next(it))
        except StopIteration:
            return frames, None
        except Exception as e:  # noqa: BLE001
            return frames, type(e).__name__


def gen_grouped_writer_cases(ctx, n: int) -> tuple[list[str], dict]:
    import gen as genmod
    from pyjelly.integrations.generic import generic_sink as gs

    r = ctx.rng
    cases: list[str] = []
    stats = {"streams": 0, "frames": 0, "exceptions": {}, "skipped": 0, "options_guessed": 0, "sinks": 0}
    oo = "[" + "; ".join(f'("{a}"%string, "{b}"%string)' for a, b in oneof_members()) + "]"
    tries = 0
    while len(cases) < n and tries < 6 * n:
        tries += 1
        quads = r.random() < 0.5
        g = genmod.Gen(r, nprefix=r.randint(1, 4), nname=r.randint(2, 5), ndt=r.randint(1, 2))
        groups = []
        for gi in range(r.choice([0, 1, 2, 3])):
            raw = g.statements(r.choice([0, 1, 2, 5]), 4 if quads else 3)
            stmts = [gs.Quad(*s) if quads else gs.Triple(*s) for s in raw]
            if stmts and r.random() < 0.08:
                stmts[0] = gs.Triple(*stmts[0][:3]) if quads else gs.Quad(*stmts[0], gs.DefaultGraph)
            ns = g.namespaces(r.randint(0, 2)) if r.random() < 0.5 else []
            groups.append((ns, stmts))
        cfg = None
        if r.random() < 0.6:
            cfg = {"maxn": r.choice([16, 4000]), "maxp": r.choice([0, 4, 150]), "maxd": r.choice([2, 32]), "gen": True, "star": True, "version": r.choice([0, 1, 2]),
                   "delimited": r.random() < 0.8, "nd": r.random() < 0.5, "name": "", "frame_size": r.choice([1, 3, 250]),
                   "logical": r.choice([0, 1, 2, 3, 4, 13])}
        frames, exc = run_grouped_writer(cfg, groups)
        if exc is not None and exc not in EXNS:
            stats["skipped"] += 1
            continue
        try:
            gl = "[" + "; ".join("([" + "; ".join(f"({nlist(a)}, {nlist(b)})" for a, b in ns) + "], [" + "; ".join(obj_lit(s) for s in stmts) + "])" for ns, stmts in groups) + "]"
        except ValueError:
            stats["skipped"] += 1
            continue
        b = lambda x: "true" if x else "false"  # noqa: E731
        c = cfg or {"maxn": 0, "maxp": 0, "maxd": 0, "gen": False, "star": False, "version": 0, "delimited": False, "nd": False, "name": "", "frame_size": 0, "logical": 0}
        lhs = (f"tx_grouped_writer {oo} {b(cfg is not None)} ({c['maxn']}) ({c['maxp']}) ({c['maxd']}) {b(c['gen'])} {b(c['star'])} ({c['version']}) "
               f"{b(c['delimited'])} {b(c['nd'])} {nlist(c['name'])} ({c['frame_size']}) ({c['logical']}) {gl}")
        rhs = "([" + "; ".join(pb_canon_lit(f) for f in frames) + "], " + ("None" if exc is None else f"Some {exc}") + ")"
        cases.append(f"{lhs} = {rhs}")
        stats["streams"] += 1
        stats["frames"] += len(frames)
        stats["sinks"] += len(groups)
        stats["options_guessed"] += cfg is None
        if exc:
            stats["exceptions"][exc] = stats["exceptions"].get(exc, 0) + 1
    return cases, stats


def run_flat_writer(cfg: dict | None, stmts: list):
    from pyjelly.integrations.generic import serialize as ser
    from pyjelly.options import LookupPreset, StreamParameters
    from pyjelly.serialize.streams import SerializerOptions

    frames = []
    try:
        opts = None
        if cfg is not None:
            preset = LookupPreset(max_names=cfg["maxn"], max_prefixes=cfg["maxp"], max_datatypes=cfg["maxd"])
            params = StreamParameters(generalized_statements=cfg["gen"], rdf_star=cfg["star"], version=cfg["version"], delimited=cfg["delimited"],
                                      namespace_declarations=cfg["nd"], stream_name=cfg["name"])
            opts = SerializerOptions(flow=None, frame_size=cfg["frame_size"], logical_type=cfg["logical"], params=params, lookup_preset=preset)
        it = ser.flat_stream_to_frames((x for x in stmts), opts)
    except Exception as e:  # noqa: BLE001
        return [], type(e).__name__
    while True:
        try:
            frames.append(next(it))
        except StopIteration:
            return frames, None
        except Exception as e:  # noqa: BLE001
            return frames, type(e).__name__


def gen_flat_writer_cases(ctx, n: int) -> tuple[list[str], dict]:
    import gen as genmod
    from pyjelly.integrations.generic import generic_sink as gs

    r = ctx.rng
    cases: list[str] = []
    stats = {"streams": 0, "frames": 0, "exceptions": {}, "skipped": 0, "options_guessed": 0, "empty": 0}
    oo = "[" + "; ".join(f'("{a}"%string, "{b}"%string)' for a, b in oneof_members()) + "]"
    tries = 0
    while len(cases) < n and tries < 6 * n:
        tries += 1
        quads = r.random() < 0.5
        g = genmod.Gen(r, nprefix=r.randint(1, 4), nname=r.randint(2, 5), ndt=r.randint(1, 2))
        raw = g.statements(r.choice([0, 1, 2, 5, 9]), 4 if quads else 3, prepeat=0.6)
        stmts = [gs.Quad(*s) if quads else gs.Triple(*s) for s in raw]
        if len(stmts) > 1 and r.random() < 0.1:
            j = r.randrange(1, len(stmts))
            stmts[j] = gs.Triple(*stmts[j][:3]) if quads else gs.Quad(*stmts[j], gs.DefaultGraph)
        cfg = None
        if r.random() < 0.6:
            cfg = {"maxn": r.choice([16, 4000]), "maxp": r.choice([0, 4, 150]), "maxd": r.choice([2, 32]), "gen": True, "star": True, "version": r.choice([0, 1, 2]),
                   "delimited": r.random() < 0.8, "nd": r.random() < 0.5, "name": "", "frame_size": r.choice([1, 3, 250]),
                   "logical": r.choice([0, 1, 2, 3, 4, 13])}
        frames, exc = run_flat_writer(cfg, stmts)
        if exc is not None and exc not in EXNS:
            stats["skipped"] += 1
            continue
        try:
            sl = "[" + "; ".join(obj_lit(s) for s in stmts) + "]"
        except ValueError:
            stats["skipped"] += 1
            continue
        b = lambda x: "true" if x else "false"  # noqa: E731
        c = cfg or {"maxn": 0, "maxp": 0, "maxd": 0, "gen": False, "star": False, "version": 0, "delimited": False, "nd": False, "name": "", "frame_size": 0, "logical": 0}
        lhs = (f"tx_flat_writer {oo} {b(cfg is not None)} ({c['maxn']}) ({c['maxp']}) ({c['maxd']}) {b(c['gen'])} {b(c['star'])} ({c['version']}) "
               f"{b(c['delimited'])} {b(c['nd'])} {nlist(c['name'])} ({c['frame_size']}) ({c['logical']}) {sl}")
        rhs = "([" + "; ".join(pb_canon_lit(f) for f in frames) + "], " + ("None" if exc is None else f"Some {exc}") + ")"
        cases.append(f"{lhs} = {rhs}")
        stats["streams"] += 1
        stats["frames"] += len(frames)
        stats["options_guessed"] += cfg is None
        stats["empty"] += not stmts
        if exc:
            stats["exceptions"][exc] = stats["exceptions"].get(exc, 0) + 1
    return cases, stats


# ------------------------------------------------------------------ the rdflib integration's term encoder
class _NotATerm:
    """An object that is not an rdflib term (O_None of the specification).  Not Python's None: the writer's repeated-term list uses
    None for 'nothing yet', so a None handed in as a term compares equal to that marker -- outside the model."""


NOT_A_TERM = _NotATerm()


def robj_lit(x) -> str:
    import rdflib

    def o(v):
        return "None" if v is None else f"(Some {nlist(str(v))})"
    if isinstance(x, rdflib.Literal):
        return f"(@O_Literal SN {nlist(str(x))} {o(x.language)} {o(x.datatype)})"
    if isinstance(x, rdflib.URIRef):
        return f"(@O_URIRef SN {nlist(str(x))})"
    if isinstance(x, rdflib.BNode):
        return f"(@O_BNode SN {nlist(str(x))})"
    if x is NOT_A_TERM:
        return "(@O_None SN)"
    if type(x) is str:
        return f"(@O_str SN {nlist(x)})"
    raise ValueError(f"object {type(x)}")


def rterm(r: random.Random, g, graph: bool = False):
    """An rdflib term (also: language tags in several cases, empty strings, the default graph's id, None for 'not a term')."""
    import rdflib
    from rdflib.graph import DATASET_DEFAULT_GRAPH_ID

    k = r.random()
    if graph and k < 0.25:
        return DATASET_DEFAULT_GRAPH_ID
    if k < 0.45:
        return rdflib.URIRef(g.iri()._iri)
    if k < 0.6:
        return rdflib.BNode(r.choice(["b0", "b1", "x", ""]))
    if k < 0.95:
        lex = r.choice(["a", "", "chat", "1", "é"])
        m = r.random()
        if m < 0.4:
            return rdflib.Literal(lex, lang=r.choice(["en", "EN", "En", "en-GB", "en-gb", "de"]), normalize=False)
        if m < 0.7:
            return rdflib.Literal(lex, datatype=rdflib.URIRef(r.choice(["http://www.w3.org/2001/XMLSchema#string", "http://www.w3.org/2001/XMLSchema#integer",
                                                                       "http://e/dt", "urn:d"])), normalize=False)
        return rdflib.Literal(lex, normalize=False)
    return NOT_A_TERM


def run_rwriter(quads: bool, cfg: dict, ns: list, stmts: list):
    from pyjelly.integrations.rdflib.serialize import RDFLibTermEncoder
    from pyjelly.options import LookupPreset, StreamParameters
    from pyjelly.serialize.streams import QuadStream, SerializerOptions, TripleStream

    frames = []
    try:
        preset = LookupPreset(max_names=cfg["maxn"], max_prefixes=cfg["maxp"], max_datatypes=cfg["maxd"])
        params = StreamParameters(generalized_statements=cfg["gen"], rdf_star=cfg["star"], version=cfg["version"], delimited=cfg["delimited"],
                                  namespace_declarations=cfg["nd"], stream_name=cfg["name"])
        opts = SerializerOptions(flow=None, frame_size=cfg["frame_size"], logical_type=cfg["logical"], params=params, lookup_preset=preset)
        enc = RDFLibTermEncoder(lookup_preset=preset)
        stream = (QuadStream if quads else TripleStream)(encoder=enc, options=opts)
        stream.enroll()
        for a, b in ns:
            stream.namespace_declaration(name=a, iri=b)
    except Exception as e:  # noqa: BLE001
        return [], type(e).__name__
    for st in stmts:
        try:
            fr = stream.quad(st) if quads else stream.triple(st)
        except Exception as e:  # noqa: BLE001
            return frames, type(e).__name__
        if fr:
            frames.append(fr)
    try:
        last = stream.flow.to_stream_frame()
    except Exception as e:  # noqa: BLE001
        return frames, type(e).__name__
    if last:
        frames.append(last)
    return frames, None


def gen_rdflib_cases(ctx, n: int) -> tuple[list[str], dict]:
    """(1) the specification of rdflib's objects against the real ones: isinstance, str, == (pairs incl. equal strings of different
    classes, language tags that differ in case only, the default graph's id); (2) the writer chain with RDFLibTermEncoder."""
    import gen as genmod
    from rdflib.graph import DATASET_DEFAULT_GRAPH_ID
    import rdflib

    r = ctx.rng
    cases: list[str] = []
    stats = {"object_pairs": 0, "equal_pairs": 0, "case_only_pairs": 0, "streams": 0, "frames": 0, "exceptions": {}, "skipped": 0}
    g = genmod.Gen(r, nprefix=2, nname=3, ndt=2)
    b = lambda x: "true" if x else "false"  # noqa: E731
    for _ in range(3 * n):
        x = rterm(r, g, graph=True)
        y = r.choice([x, rterm(r, g, graph=True), DATASET_DEFAULT_GRAPH_ID])
        if isinstance(x, rdflib.Literal) and x.language and r.random() < 0.5:
            y = rdflib.Literal(str(x), lang=r.choice([x.language.upper(), x.language.lower(), x.language]), normalize=False)
            stats["case_only_pairs"] += 1
        if x is NOT_A_TERM:
            x = r.choice([NOT_A_TERM, "plain str"])
        eq = bool(x == y)
        sx = "None" if x is NOT_A_TERM else f"(Some {nlist(str(x))})"
        cases.append(f"txr_obs {robj_lit(x)} {robj_lit(y)} = (({b(isinstance(x, rdflib.URIRef))}, {b(isinstance(x, rdflib.BNode))}, {b(isinstance(x, rdflib.Literal))}), {sx}, {b(eq)})")
        stats["object_pairs"] += 1
        stats["equal_pairs"] += eq
    oo = "[" + "; ".join(f'("{a}"%string, "{c}"%string)' for a, c in oneof_members()) + "]"
    tries = 0
    while stats["streams"] < n and tries < 6 * n:
        tries += 1
        quads = r.random() < 0.5
        g = genmod.Gen(r, nprefix=r.randint(1, 4), nname=r.randint(2, 5), ndt=r.randint(1, 3))
        stmts, prev = [], None
        for _ in range(r.choice([1, 2, 4, 8])):
            cur = []
            for i in range(4 if quads else 3):
                if prev is not None and r.random() < 0.5:
                    t = prev[i]
                    if isinstance(t, rdflib.Literal) and t.language and r.random() < 0.4:  # the same literal up to the case of its tag
                        t = rdflib.Literal(str(t), lang=t.language.swapcase(), normalize=False)
                    cur.append(t)
                else:
                    cur.append(rterm(r, g, graph=(i == 3)))
            if r.random() < 0.05:
                cur = cur[:-1]  # a short statement
            stmts.append(cur)
            prev = cur if len(cur) == (4 if quads else 3) else prev
        odd = r.random() < 0.15
        cfg = {
            "maxn": r.choice([8, 4097, 7]) if odd else r.choice([16, 4000]),
            "maxp": r.choice([1, 5000, 0]) if odd else r.choice([0, 4, 150]),
            "maxd": r.choice([0, 1, 5000]) if odd else r.choice([3, 32]),
            "gen": r.random() < 0.5, "star": r.random() < 0.5, "version": r.choice([0, 1, 2]), "delimited": r.random() < 0.7,
            "nd": r.random() < 0.4, "name": r.choice(["", "s"]),
            "frame_size": r.choice([1, 2, 3, 250]),
            "logical": r.choice([0, 2, 4] if quads else [0, 1, 3]),
        }
        ns = g.namespaces(r.randint(0, 2)) if cfg["nd"] else []
        frames, exc = run_rwriter(quads, cfg, ns, [list(s) for s in stmts])
        if exc is not None and exc not in EXNS:
            stats["skipped"] += 1
            continue
        st_lit = "[" + "; ".join("[" + "; ".join(robj_lit(t) for t in s) + "]" for s in stmts) + "]"
        ns_lit = "[" + "; ".join(f"({nlist(a)}, {nlist(c)})" for a, c in ns) + "]"
        lhs = (f"txr_writer {oo} {b(quads)} ({cfg['maxn']}) ({cfg['maxp']}) ({cfg['maxd']}) {b(cfg['gen'])} {b(cfg['star'])} ({cfg['version']}) "
               f"{b(cfg['delimited'])} {b(cfg['nd'])} {nlist(cfg['name'])} ({cfg['frame_size']}) ({cfg['logical']}) {ns_lit} {st_lit}")
        rhs = "([" + "; ".join(pb_canon_lit(f) for f in frames) + "], " + ("None" if exc is None else f"Some {exc}") + ")"
        cases.append(f"{lhs} = {rhs}")
        stats["streams"] += 1
        stats["frames"] += len(frames)
        if exc:
            stats["exceptions"][exc] = stats["exceptions"].get(exc, 0) + 1
    return cases, stats


def gen_rdflib_driver_cases(ctx, n: int) -> tuple[list[str], dict]:
    """The rdflib drivers on real rdflib Graphs / Datasets against the translated drivers on the stand-ins built from what the real
    containers hand out (iteration order, graphs(), quads(), namespaces()): same frames, same exception classes."""
    import rdflib
    from rdflib.graph import DATASET_DEFAULT_GRAPH_ID

    import fam_parse
    import fam_rdflib
    import gen as genmod
    from pyjelly.integrations.rdflib import serialize as rser
    from pyjelly.integrations.rdflib.parse import Quad, Triple
    from pyjelly.options import LookupPreset, StreamParameters
    from pyjelly.serialize.streams import GraphStream, QuadStream, SerializerOptions, TripleStream

    r = ctx.rng
    cases: list[str] = []
    stats = {"runs": 0, "frames": 0, "exceptions": {}, "skipped": 0, "by_driver": {}}
    oo = "[" + "; ".join(f'("{a}"%string, "{c}"%string)' for a, c in oneof_members()) + "]"
    b = lambda x: "true" if x else "false"  # noqa: E731
    names = {1: "triples/Graph", 2: "triples/Dataset", 3: "quads/Dataset", 4: "graphs/Dataset", 5: "stream_frames/Dataset", 6: "triples/generator", 7: "quads/generator"}
    tries = 0
    while stats["runs"] < n and tries < 6 * n:
        tries += 1
        which = r.choice([1, 2, 3, 4, 5, 6, 7])
        phys = {1: 1, 2: r.choice([1, 3]), 3: 2, 4: 3, 5: r.choice([1, 2, 3]), 6: 1, 7: 2}[which]
        ar = 3 if which in (1, 6) else 4
        g = genmod.Gen(r, nprefix=r.randint(1, 4), nname=r.randint(2, 6), ndt=r.randint(1, 2))
        stmts = fam_parse.rdf11_statements(r, g, r.choice([0, 1, 3, 6, 10]), ar)
        nd = r.random() < 0.5
        ns = [(a, c) for a, c in g.namespaces(r.randint(0, 3)) if c] if nd else []
        empties = r.sample([("I", "http://e.org/g-empty"), ("B", "ge0"), ("I", "urn:empty")], r.randint(0, 2)) if which in (2, 3, 4, 5) and r.random() < 0.4 else []
        cfg = {"maxn": r.choice([16, 4000]), "maxp": r.choice([0, 4, 150]), "maxd": r.choice([2, 32]), "gen": False, "star": False, "version": r.choice([1, 2]),
               "delimited": r.random() < 0.8, "nd": nd, "name": "", "frame_size": r.choice([1, 3, 250]),
               "logical": r.choice({1: [0, 1, 3], 2: [0, 2, 4], 3: [0, 2, 3, 4]}[phys])}
        dataset = which in (2, 3, 4, 5)
        mk = lambda: fam_rdflib.build(stmts, ns, dataset, empties)  # noqa: E731
        # what the containers hand out (fresh copies: iterating a Dataset registers its default graph)
        if which in (6, 7):
            tuples = [(Triple if ar == 3 else Quad)(*[fam_rdflib.to_rdflib(t) for t in st]) for st in stmts]
            obs = {"g": (None, [], []), "graphs": [], "quads": [], "ns": [], "stmts": [list(t) for t in tuples]}
        elif which == 1:
            d0 = mk()
            obs = {"g": (d0.identifier, [list(t) for t in d0], [(p_, n_) for p_, n_ in d0.namespaces()]), "graphs": [], "quads": [], "ns": [], "stmts": []}
        else:
            obs = {"g": (None, [], []), "graphs": [(x.identifier, [list(t) for t in x], [(p_, n_) for p_, n_ in x.namespaces()]) for x in mk().graphs()],
                   "quads": [list(q) for q in mk().quads()], "ns": [(p_, n_) for p_, n_ in mk().namespaces()], "stmts": []}
        frames, exc = [], None
        try:
            preset = LookupPreset(max_names=cfg["maxn"], max_prefixes=cfg["maxp"], max_datatypes=cfg["maxd"])
            params = StreamParameters(generalized_statements=False, rdf_star=False, version=cfg["version"], delimited=cfg["delimited"],
                                      namespace_declarations=cfg["nd"], stream_name="")
            opts = SerializerOptions(flow=None, frame_size=cfg["frame_size"], logical_type=cfg["logical"], params=params, lookup_preset=preset)
            stream = {1: TripleStream, 2: QuadStream, 3: GraphStream}[phys](encoder=rser.RDFLibTermEncoder(lookup_preset=preset), options=opts)
            data = iter(tuples) if which in (6, 7) else mk()
            fn = {1: rser.triples_stream_frames, 2: rser.triples_stream_frames, 3: rser.quads_stream_frames, 4: rser.graphs_stream_frames, 5: rser.stream_frames,
                  6: rser.triples_stream_frames, 7: rser.quads_stream_frames}[which]
            it = fn(stream, data)
            while True:
                try:
                    frames.append(next(it))
                except StopIteration:
                    break
        except Exception as e:  # noqa: BLE001
            exc = type(e).__name__
        if exc is not None and exc not in EXNS:
            stats["skipped"] += 1
            continue

        def rl(x):
            return "(@O_None SN)" if x is None else robj_lit(x)

        def nsl(l):
            return "[" + "; ".join(f"({nlist(p_)}, {robj_lit(n_)})" for p_, n_ in l) + "]"

        def tl(l):
            return "[" + "; ".join("[" + "; ".join(robj_lit(t) for t in st) + "]" for st in l) + "]"
        try:
            gi, gt, gn = obs["g"]
            glit = f"(txr_graph {rl(gi)} {tl(gt)} {nsl(gn)})"
            graphs_lit = "[" + "; ".join(f"(txr_graph {rl(i_)} {tl(t_)} {nsl(n_)})" for i_, t_, n_ in obs["graphs"]) + "]"
            lhs = (f"txr_driver {oo} ({which}) ({phys}) ({cfg['maxn']}) ({cfg['maxp']}) ({cfg['maxd']}) false false ({cfg['version']}) {b(cfg['delimited'])} {b(cfg['nd'])} []%N "
                   f"({cfg['frame_size']}) ({cfg['logical']}) {glit} {graphs_lit} {tl(obs['quads'])} {nsl(obs['ns'])} {tl(obs['stmts'])}")
        except ValueError:
            stats["skipped"] += 1
            continue
        rhs = "([" + "; ".join(pb_canon_lit(f) for f in frames) + "], " + ("None" if exc is None else f"Some {exc}") + ")"
        cases.append(f"{lhs} = {rhs}")
        stats["runs"] += 1
        stats["frames"] += len(frames)
        stats["by_driver"][names[which]] = stats["by_driver"].get(names[which], 0) + 1
        if exc:
            stats["exceptions"][exc] = stats["exceptions"].get(exc, 0) + 1
    return cases, stats


def pobj_lit(x) -> str:
    """An object the rdflib reader yields, as a value of the translated unit's type (RdflibParseGen.obj)."""
    from pyjelly.integrations.rdflib import parse as rp

    if isinstance(x, rp.Quad):
        return "(@O_Quad SN " + " ".join(robj_lit(t) for t in x) + ")"
    if isinstance(x, rp.Triple):
        return "(@O_Triple SN " + " ".join(robj_lit(t) for t in x) + ")"
    if isinstance(x, rp.Prefix):
        return f"(@O_Prefix SN {nlist(x.prefix)} {robj_lit(x.iri)})"
    return robj_lit(x)


def run_rimpl(frames) -> tuple[list, str | None]:
    """The real rdflib reader on the frames: options_from_frame on the first one, then parse_jelly_flat(frames=.., options=..)."""
    import logging
    import warnings

    from pyjelly.integrations.rdflib import parse as rp
    from pyjelly.parse.decode import options_from_frame

    ys: list = []
    try:
        opts = options_from_frame(frames[0], delimited=True)
    except Exception as e:  # noqa: BLE001
        return [], type(e).__name__
    logging.disable(logging.CRITICAL)
    try:
        with warnings.catch_warnings():
            warnings.simplefilter("ignore")
            for y in rp.parse_jelly_flat(None, frames=list(frames), options=opts):
                ys.append(y)
    except Exception as e:  # noqa: BLE001
        return ys, type(e).__name__
    finally:
        logging.disable(logging.NOTSET)
    return ys, None


BAD_TAGS = ["en_US", "-", "e n", "1x", "en-", "\u00e9", "en\n"]


def gen_rdflib_reader_cases(ctx, n: int) -> tuple[list[str], dict]:
    """n cases `txp_reader [frames] = [results]`: RDF 1.1 streams of the reference encoder (some with xsd:token / xsd:normalizedString
    literals whose form the whiteSpace facet rewrites), as they are, with one mutation, or with one language tag made ill-formed
    (rdflib's constructor raises ValueError; once in a while the one form Python's `$` lets through: a final newline)."""
    import fam_parse

    rng = ctx.rng
    cases: list[str] = []
    stats = {"valid": 0, "mutated": 0, "bad_tag": 0, "facet_rewritten": 0, "exceptions": {}, "yields": 0, "skipped": 0}
    tries = 0
    while stats["valid"] + stats["mutated"] + stats["bad_tag"] < n and tries < 6 * n:
        tries += 1
        rs = fam_parse.ref_stream(ctx, rdf11=True, facet_p=0.3)
        if rs is None:
            continue
        frames = rs["frames"]
        if not frames or not any(len(f.rows) for f in frames):
            continue
        k = rng.random()
        kind = "valid"
        if k < 0.35:
            mutate(rng, frames)
            kind = "mutated"
        elif k < 0.55:
            lits = [getattr(st, fld) for f in frames for row in f.rows for st in [getattr(row, row.WhichOneof("row"))] if row.WhichOneof("row") in ("triple", "quad")
                    for fld in ["o_literal"] if st.WhichOneof("object") == "o_literal" and getattr(st, fld).langtag]
            if lits:
                rng.choice(lits).langtag = rng.choice(BAD_TAGS)
                kind = "bad_tag"
        res = run_rimpl(frames)
        try:
            fms = "[" + "; ".join(pb_lit(f) for f in frames) + "]"
            ys, exc = res
            if exc is not None and exc not in EXNS:
                raise ValueError(exc)
            ylit = "[" + "; ".join("None" if y is None else f"Some {pobj_lit(y)}" for y in ys) + "]"
            rhs = f"({ylit}, {'None' if exc is None else 'Some ' + exc})"
            stats["yields"] += len(ys)
            if exc:
                stats["exceptions"][exc] = stats["exceptions"].get(exc, 0) + 1
        except ValueError:
            stats["skipped"] += 1
            continue
        if kind == "valid" and exc is None:
            sent = [fam_parse.facet_rewritten(e) != e for e in rs["events"]]
            stats["facet_rewritten"] += sum(sent)
        stats[kind] += 1
        cases.append(f"txp_reader {fms} = {rhs}")
    return cases, stats


def coq_file_rdflib_reader(cases: list[str]) -> str:
    body = ["From PJ.Model Require Import Base.", "From PJ.Tie Require Import PyPrims StrN TxRunRdflibParse.", "From PJ.Gen Require Import RdflibParseGen.",
            "Local Open Scope Z_scope."]
    for i, c in enumerate(cases):
        body.append(f"Example txp{i} : {c}.\nProof. vm_compute. reflexivity. Qed.")
    return "\n".join(body) + "\n"


def coq_file_rdflib(cases: list[str]) -> str:
    body = ["From PJ.Model Require Import Base.", "From PJ.Tie Require Import PyPrims StrN TxRun TxRunRdflib.", "From PJ.Gen Require Import RdflibSerializeGen.",
            "Local Open Scope Z_scope."]
    for i, c in enumerate(cases):
        body.append(f"Example txr{i} : {c}.\nProof. vm_compute. reflexivity. Qed.")
    return "\n".join(body) + "\n"


def coq_file(cases: list[str]) -> str:
    body = ["From PJ.Model Require Import Base.", "From PJ.Tie Require Import PyPrims StrN TxRun.", "From PJ.Gen Require Import GenericSinkGen.",
            "Local Open Scope Z_scope."]
    for i, c in enumerate(cases):
        body.append(f"Example tx{i} : {c}.\nProof. vm_compute. reflexivity. Qed.")
    return "\n".join(body) + "\n"
