"""checks.py -- per-property plans: which correspondence families and property oracles run."""
from __future__ import annotations

import json

import fam_encode
import fam_lookup
import fam_parse
import refenc

TRUSTED_BASE = [
    "Coq 8.16.1 kernel (coqc); vm_compute used for finite closures; native_compute not used",
    "no axioms: Print Assumptions of every property theorem must say 'Closed under the global context'",
    "extraction: ExtrOcamlBasic only (bool, option, unit, list, prod, sumbool, sumor -> OCaml natives; andb/orb inlined); N, positive, nat stay extracted inductives",
    "OCaml 4.13.1 and ocaml/driver.ml (text <-> extracted datatypes)",
    "the Python correspondence harness (generators, canonicalisers, source doubles)",
    "modelled, not verified: CPython semantics of the modelled code, str<->UTF-8, google.protobuf 7.36.1/upb serialisation and parse_length_prefixed, io.BufferedReader, rdflib 7.6.0",
]
COMMON_ASSUMPTIONS = [
    "the hand-written Gallina model corresponds to pyjelly's source: checked on this run by the correspondence families listed in coverage.correspondence_families, not proved",
    "Python asserts enabled (no -O)",
]
ASSUMPTIONS: dict[str, list[str]] = {}
RULES: dict[str, str] = {}
PLANS: dict = {}
REPLAYERS: dict = {}


def plan(pid: str, rule: str, assumptions: list[str] | None = None):
    def deco(f):
        PLANS[pid] = f
        RULES[pid] = rule
        ASSUMPTIONS[pid] = assumptions or []
        return f

    return deco


def match_known(pid: str, d: dict, known: list[dict]) -> dict | None:
    for k in known:
        if k["property"] != pid:
            continue
        sig = k.get("signature", {})
        if all(d.get("signature", {}).get(a) == b for a, b in sig.items()):
            return k
    return None


# ------------------------------------------------------------------ C05
@plan(
    "C05",
    "LK: random key histories (length<=200 quick / 2000 thorough) over sizes 1..8, alphabet size+2, per rule set; "
    "LKX: breadth-first closure of the joint reachable writer/reader state space of the real classes, every transition "
    "compared with the model. Non-trivial = a history with more distinct keys than the table has slots (forces eviction); "
    "distinct by (rule, size, key sequence).",
)
def c05(ctx):
    out = []
    for rule in "npd":
        out += fam_lookup.fam_lk(ctx, rule, ctx.n(150, 1500), ctx.n(200, 2000))
    sizes = [1, 2, 3] if ctx.quick else [1, 2, 3, 4]
    for rule in "npd":
        for size in sizes:
            out += fam_lookup.fam_lkx(ctx, rule, size)
    if not ctx.quick:
        out += fam_lookup.fam_lkx(ctx, "n", 5, limit_states=150000)
    ctx.report.exhaustive = True
    ctx.report.notes.append("exhaustive for the joint state spaces listed under correspondence_families.LKX; LK histories are sampled")
    # the property's own observation point: indices of TermEncoder (with its per-statement bound on the
    # entries one statement may touch) fed to the Decoder, tables smaller than and just as large as one
    # statement's needs
    out += en_sweep(ctx, ctx.n(120, 1000), fits=False, _no_search=True)
    out += en_sweep(ctx, ctx.n(60, 500), churn=True, _no_search=True)
    if out and not any(d.get("property_violation") for d in out):
        # each single use still resolves, yet the tables no longer behave like the model's: look for the
        # damage where the property also observes it -- indices of TermEncoder fed to the Decoder, whole statements
        out += search_failing_input(ctx)
    return out


# ------------------------------------------------------------------ C01 / C03
def en_sweep(ctx, n: int, **kw) -> list:
    out = []
    no_search = kw.pop("_no_search", False)
    for _ in range(n):
        case = fam_encode.gen_generic_case(ctx, None, **kw)
        ctx.report.evaluations += 1
        cfg = case["cfg"]
        ctx.report.count(f"EN/{case['entry']}/{cfg.cls}/{'delim' if cfg.delim else 'single'}")
        ctx.report.count(f"EN/frame_size={cfg.frame_size}")
        ctx.report.count(f"EN/tables n={'min' if cfg.maxn < 100 else 'big'} p={'0' if cfg.maxp == 0 else 'min' if cfg.maxp < 100 else 'big'} d={'0' if cfg.maxd == 0 else 'min' if cfg.maxd < 30 else 'big'}")
        key = (case["entry"], cfg.tok(), tuple(core_stmt_tok(s) for s in case["stmts"]))
        if len(case["stmts"]) > 1:
            ctx.report.nontrivial.add(key)
        d = fam_encode.run_case(ctx, case)
        if ctx.report.evaluations <= 2:
            ctx.report.sample({"family": "EN", "cfg": cfg.as_json(), "stmts": [core_stmt_tok(s) for s in case["stmts"]][:3], "agreed": d is None})
        if d:
            out.append(d)
    if out and not any(d.get("property_violation") for d in out) and not no_search:
        out += search_failing_input(ctx, kw.get("entry"))
    return out


def search_failing_input(ctx, entry=None, budget_s: float = 40.0) -> list:
    """The correspondence broke but no sampled input violates the property itself: search, on the
    implementation alone, for an input on which it does (long sequences, tables at their smallest,
    both fitting and under-sized) -- the oracles are the round trip and the Spec referee."""
    import time

    import gen as genmod

    t0 = time.time()
    r = ctx.rng
    tried = 0
    while time.time() - t0 < budget_s:
        tried += 1
        case = fam_encode.gen_generic_case(ctx, None, fits=r.random() < 0.7, entry=entry if entry in (None, "stream_frames", "flat_file") else None)
        # longer inputs, smallest tables
        cls = case["cfg"].cls
        ar = 3 if cls == "T" else 4
        g = genmod.Gen(r, nprefix=r.randint(2, 6), nname=r.randint(4, 14), ndt=r.randint(1, 3))
        case["stmts"] = g.statements(r.choice([10, 30, 60]), ar, typed=case["cfg"].maxd != 0, prepeat=r.choice([0.2, 0.5]))
        need = genmod.table_need(case["stmts"])
        case["cfg"].maxn = max(8, need[0])
        if case["cfg"].maxp:
            case["cfg"].maxp = max(1, need[1]) + r.randint(0, 1)
        if case["cfg"].maxd:
            case["cfg"].maxd = max(1, need[2])
        case["ns"] = []
        cfg = case["cfg"]
        impl = fam_encode.impl_run(cfg, case["stmts"], [], case["sink"], case["entry"], case)
        pv = fam_encode.property_oracles(ctx, case, impl)
        ctx.report.evaluations += 1
        if pv:
            ctx.report.notes.append(f"search: failing input found after {tried} candidates")
            return [{"family": "EN", "entry": case["entry"], "cfg": cfg.as_json(), "stmts": [core_stmt_tok(s) for s in case["stmts"]], "ns": [],
                     "sink": case["sink"], "impl": impl["trace"][:1500], "model": "(search phase: implementation only)", "corresponds": True,
                     "property_violation": pv, "signature": {}}]
    ctx.report.notes.append(f"search: no failing input among {tried} candidates")
    return []


def core_stmt_tok(s):
    import core

    return core.stmt_tok(s)


@plan(
    "C01",
    "EN: random generic statement sequences (small alphabets, repeat probability 0.55, nested quoted triples, generalized "
    "positions, empty strings, non-ASCII) x TRIPLES/QUADS/GRAPHS x table sizes at the fits boundary x frame sizes {1,2,3,7,250} x "
    "delimited/non-delimited, through stream_frames, flat_stream_to_file, grouped_stream_to_file, sink.serialize; every frame compared "
    "byte for byte with the model, then the written bytes parsed back by pyjelly and decoded by the extracted Spec referee. "
    "Non-trivial = more than one statement; distinct by (entry, configuration, statements).",
)
def c01(ctx):
    out = en_sweep(ctx, ctx.n(600, 12000))
    out += en_sweep(ctx, ctx.n(100, 1500), entry="flat_file")
    out += en_sweep(ctx, ctx.n(200, 3000), churn=True)
    return out


@plan(
    "C03",
    "EN as for C01 (both integrations, three physical types); the oracle is the extracted Wire.parse + Spec.run on the raw bytes "
    "(no pyjelly, no rdf_pb2 on that path). Non-trivial = more than one statement; distinct by (entry, configuration, statements).",
)
def c03(ctx):
    out = en_sweep(ctx, ctx.n(500, 10000))
    # whatever is written must be valid, also when a table is too small for a statement
    out += en_sweep(ctx, ctx.n(300, 4000), fits=False)
    return out


# ------------------------------------------------------------------ C04
def ref_sweep(ctx, n: int, igs, modes, rdf11=False, **kw) -> list:
    out = []
    made = 0
    while made < n:
        st = fam_parse.ref_stream(ctx, rdf11=rdf11, **kw)
        if st is None:
            ctx.report.count("PA/ref-encoder-overflow")
            continue
        made += 1
        ctx.report.count(f"PA/stream re-uses an id pair for another IRI={st['enc'].pair_reuse > 0}")
        delim = ctx.rng.random() < 0.8
        data = refenc.frames_bytes(st["frames"], delim)
        bad = fam_parse.check_against_referee(ctx, data, st["events"])
        if bad:
            out.append({"family": "REF", "what": bad, "bytes": core_hx(data), "property_violation": None, "signature": {}, "cfg": st["cfg"]})
            continue
        ctx.report.evaluations += 1
        ctx.report.count(f"PA/phys{st['phys']}/{'delim' if delim else 'single'}/v{st['cfg']['version']}")
        ctx.report.count(f"PA/frames={min(len(st['frames']), 10)}")
        if len(st["events"]) > 1:
            ctx.report.nontrivial.add(core_hx(data))
        exp = fam_encode.norm_event_toks(st["events"]) if False else st["events"]
        ds = fam_parse.run_parse_case(ctx, data, exp, igs=igs, modes=modes, meta={"cfg": st["cfg"]}, rdf11=rdf11)
        if made <= 2:
            ctx.report.sample({"family": "PA", "cfg": st["cfg"], "bytes": core_hx(data)[:200], "events": st["events"][:3], "agreed": not ds})
        out += ds
    return out


def core_hx(b):
    import core

    return core.hx(b)


@plan(
    "C04",
    "PA: valid streams from the independent reference encoder (random eviction victim, IRI split point, explicit/zero ids, early and "
    "redundant entries, repeated terms or not, frame cuts, empty and metadata-only frames, repeated options rows, delimited or not, "
    "versions 0-2, table sizes at the boundaries up to 4096), admitted only when the extracted Spec referee says Valid with the intended "
    "events; parsed by parse_jelly_flat/grouped/to_graph of both integrations and by the model. Non-trivial = more than one event; "
    "distinct by byte string.",
)
def c04(ctx):
    out = ref_sweep(ctx, ctx.n(400, 8000), igs=("g",), modes=("flat", "grouped", "to_graph"))
    out += ref_sweep(ctx, ctx.n(250, 5000), igs=("g", "r"), modes=("flat", "grouped", "to_graph"), rdf11=True)
    # ids at the top edge of full-size tables, few local names under many resident namespaces
    out += ref_sweep(ctx, ctx.n(300, 3000), igs=("g",), modes=("flat",), churn=True, edge=True)
    out += external_streams(ctx)
    # literals of xsd:token / xsd:normalizedString whose lexical form the whiteSpace facet would rewrite: a reader hands out the form sent
    out += ref_sweep(ctx, ctx.n(30, 500), igs=("g", "r"), modes=("flat", "grouped", "to_graph"), rdf11=True, facet_p=0.35)
    # one literal under several spellings of its language tag in one stream: the flat parsers hand out the spelling sent, statement by
    # statement (flat only: an rdflib Graph / Dataset keeps ONE of the spellings, they are one term for it)
    out += ref_sweep(ctx, ctx.n(30, 500), igs=("g", "r"), modes=("flat",), rdf11=True, tagcase_p=0.5)
    return out


def external_streams(ctx) -> list:
    """Streams written by OTHER producers (the Jelly project's sample file and the metadata examples that
    ship with pyjelly's tests, copied to corpus/external): the referee must call them Valid -- a check
    of Spec.v itself against data it was not written alongside -- and pyjelly must read what it says."""
    import pathlib

    import core

    out = []
    for f in sorted((pathlib.Path(__file__).resolve().parent.parent / "corpus" / "external").glob("*.jelly")):
        data = f.read_bytes()
        status, cls_, evs = fam_encode.spec_events(ctx.driver.ask("SB " + core.hx(data)))
        ctx.report.evaluations += 1
        ctx.report.count("PA/external/" + status)
        if status != "valid":
            out.append({"family": "REF", "what": f"the referee calls the external stream {f.name} {status} {cls_}", "bytes": core.hx(data),
                        "property_violation": None, "signature": {}})
            continue
        ctx.report.nontrivial.add(("external", f.name))
        out += fam_parse.run_parse_case(ctx, data, evs, igs=("g", "r"), modes=("flat", "grouped"), meta={"file": f.name}, rdf11=True)
    return out


def replay_pa(ctx, body):
    import core

    if body.get("mode") == "flat-long":  # too long to store: rebuilt from its parameters
        import checks_b

        g = body["gen"]
        data, _, per_frame, _, bounds = checks_b.long_frame_stream(g["width"], g["statements"], g["frame_size"])
        pv, e, last, nwant = checks_b.long_frame_cut(data, per_frame, bounds, body["cut"], g["carrier"], g["sched"])
        print(f"long frame stream of {len(data)} bytes cut at {body['cut']}: end {e}, last events {last}, {nwant} statements expected")
        return pv
    data = core.unhx(body["bytes"])
    ds = fam_parse.run_parse_case(ctx, data, None, igs=(body.get("ig", "g"),), modes=(body.get("mode", "flat"),), strict=body.get("strict", False))
    end, evs, err = fam_parse.impl_flat(body.get("ig", "g"), data)
    print("impl flat:", end, err, evs[:8])
    print("referee  :", ctx.driver.ask("SB " + body["bytes"])[:400])
    if body.get("property_violation"):
        # re-evaluate the recorded expectation
        exp = body.get("expected")
        if exp is not None and (end != "E" or evs != exp):
            return body["property_violation"]["what"]
    if ds:
        return "model and implementation disagree"
    return None


REPLAYERS["PA"] = replay_pa


# ------------------------------------------------------------------ C02
def rdflib_case(ctx, cls=None, entry=None, nd=None, fits=True):
    import fam_rdflib  # noqa: F401
    import gen as genmod

    r = ctx.rng
    cls = cls or r.choice("TQG")
    ar = 3 if cls == "T" else 4
    g = genmod.Gen(r, nprefix=r.randint(1, 5), nname=r.randint(2, 8), ndt=r.randint(1, 3))
    stmts = fam_parse.rdf11_statements(r, g, r.choice([1, 2, 3, 5, 8, 13, 25]), ar)
    need = genmod.table_need(stmts)
    cfg = genmod.random_cfg(r, cls, need)
    cfg.ig, cfg.gen, cfg.star = "r", False, False
    if cfg.maxd == 0 and need[2]:
        cfg.maxd = need[2]
    entry = entry or r.choice(["stream_frames", "stream_frames", "serialize", "flat"])
    data = {"T": "graph", "Q": "dataset", "G": "dataset"}[cls]
    if entry == "flat" or (entry == "stream_frames" and r.random() < 0.3):
        data = "gen"
    cfg.delim = r.random() < 0.75
    if not cfg.delim or entry != "stream_frames":
        cfg.logical = {"T": 1, "Q": 2, "G": 2}[cls]
    if entry == "flat":
        cfg.delim = True
        if cls == "G":
            cls = cfg.cls = "Q"
    if entry == "serialize" and cls == "G":
        # Graph.serialize guesses the stream class from the logical type; GraphStream needs stream=
        pass
    nd = (r.random() < 0.25) if nd is None else nd
    cfg.nd = nd and data != "gen"
    ns = g.namespaces(r.randint(0, 3)) if cfg.nd else []
    ns = [(a, b) for a, b in ns if b]
    case = {"cfg": cfg, "stmts": stmts, "ns": ns, "data": data, "entry": entry, "oracles": ["roundtrip", "spec", "flushed"]}
    if entry == "serialize":
        case["pass_stream"] = cls == "G" or r.random() < 0.4
    if data == "dataset" and r.random() < 0.35:
        # a dataset also holds named graphs that were opened (ds.graph(name)) and never filled, or filled later: they are listed by
        # Dataset.graphs() wherever the store's hash order puts them
        pool = [("I", "http://e.org/g-empty"), ("I", "http://f.org#h"), ("I", "urn:empty"), ("B", "ge0"), ("I", "http://e.org/p/q/name")]
        case["empty_graphs"] = r.sample(pool, r.randint(1, 3))
    return case


def rdflib_sweep(ctx, n, **kw):
    import fam_rdflib

    out = []
    for i in range(n):
        case = rdflib_case(ctx, **kw)
        cfg = case["cfg"]
        ctx.report.evaluations += 1
        ctx.report.count(f"ER/{case['entry']}/{cfg.cls}/{case['data']}/{'delim' if cfg.delim else 'single'}")
        if len(case["stmts"]) > 1:
            ctx.report.nontrivial.add((case["entry"], cfg.tok(), tuple(core_stmt_tok(s) for s in case["stmts"])))
        d = fam_rdflib.run_rdflib_case(ctx, case)
        if i < 2:
            ctx.report.sample({"family": "ER", "entry": case["entry"], "data": case["data"], "cfg": cfg.as_json(), "stmts": [core_stmt_tok(s) for s in case["stmts"]][:3], "agreed": d is None})
        if d:
            out.append(d)
    return out


@plan(
    "C02",
    "ER: random RDF 1.1 graphs/datasets (small alphabets; default graph, blank-node graph names, language tags with case, typed "
    "literals incl. lexical forms rdflib would normalise) x TripleStream/QuadStream/GraphStream x presets at the fits boundary x "
    "frame sizes x delimited or not, through Graph.serialize(format='jelly'), stream_frames, flat_stream_to_frames; the model is given the "
    "iteration order rdflib actually used; frames compared byte for byte, then parsed back with parse_jelly_to_graph and compared as sets. "
    "Non-trivial = more than one statement; distinct by (entry, configuration, statements).",
    ["rdflib's Graph/Dataset/store behaviour (iteration order, bind policy, plugin registration) is data for the model, not modelled"],
)
def c02(ctx):
    return rdflib_sweep(ctx, ctx.n(500, 8000))


def replay_er(ctx, body):
    import fam_rdflib
    from core import Cfg

    cfg = Cfg(**{k: (tuple(v) if k == "flow" and v is not None else v) for k, v in body["cfg"].items()})
    if body.get("mismatch"):
        import checks_b

        got = checks_b.mismatch_outcome(cfg, [parse_stmt_tok(t) for t in body["stmts"]], body["data"], body["entry"])
        print("outcome:", got)
        return body["property_violation"]["what"] if got[0] == "lost" else None
    case = {"cfg": cfg, "stmts": [parse_stmt_tok(t) for t in body["stmts"]], "ns": [tuple(x) for x in body.get("ns", [])],
            "data": body["data"], "entry": body["entry"], "oracles": ["roundtrip", "spec", "flushed"]}
    case.update(body.get("extra", {}))
    d = fam_rdflib.run_rdflib_case(ctx, case)
    if d is None:
        return None
    print("impl :", d["impl"][:600])
    print("model:", d["model"][:600])
    if d["property_violation"]:
        return d["property_violation"]["what"]
    return "model and implementation disagree"


REPLAYERS["ER"] = replay_er


def replay_en(ctx, body):
    import core
    from core import Cfg

    if body.get("entry") == "grouped_both":
        import checks_c

        groups = [[parse_stmt_tok(t) for t in x] for x in body["groups"]]
        c = body["cfg"]
        a, b = checks_c.c15_grouped_case(len(groups), groups, [tuple(x) for x in body.get("ns", [])], c["frame_size"], c["nd"], c["maxp"])
        print("generic:", str(a)[:400])
        print("rdflib :", str(b)[:400])
        return body["property_violation"]["what"] if a != b else None
    cfg = Cfg(**{k: (tuple(v) if k == "flow" and v is not None else v) for k, v in body["cfg"].items()})
    stmts = [parse_stmt_tok(t) for t in body["stmts"]]
    case = {"cfg": cfg, "stmts": stmts, "ns": [tuple(x) for x in body.get("ns", [])], "sink": body.get("sink", False),
            "entry": body.get("entry", "stream_frames"), "oracles": ["roundtrip", "spec", "flushed"]}
    case.update(body.get("extra", {}))
    d = fam_encode.run_case(ctx, case)
    if d is None:
        return None
    print("impl :", d["impl"][:600])
    print("model:", d["model"][:600])
    if d["property_violation"]:
        return d["property_violation"]["what"]
    return "model and implementation disagree"


def parse_stmt_tok(tok: str):
    """Inverse of core.stmt_tok for replay files."""
    from core import Other, gs, unhx

    t = tok.split(" ")
    pos = [1]

    def oh(x):
        return None if x == "-" else unhx(x).decode("utf-8")

    def term():
        k = t[pos[0]]
        pos[0] += 1
        if k == "I":
            v = unhx(t[pos[0]]).decode("utf-8"); pos[0] += 1
            return gs.IRI(v)
        if k == "B":
            v = unhx(t[pos[0]]).decode("utf-8"); pos[0] += 1
            return gs.BlankNode(v)
        if k == "L":
            lex, lang, dt = unhx(t[pos[0]]).decode("utf-8"), oh(t[pos[0] + 1]), oh(t[pos[0] + 2]); pos[0] += 3
            return gs.Literal(lex, lang, dt)
        if k == "T":
            a = term(); b = term(); c = term()
            return gs.Triple(a, b, c)
        if k == "D":
            return gs.DefaultGraph
        return Other()

    n = int(t[0])
    terms = [term() for _ in range(n)]
    return gs.Triple(*terms) if n == 3 else gs.Quad(*terms) if n == 4 else tuple(terms)


REPLAYERS["EN"] = replay_en


def replay_lk(ctx, body):
    rule = {v: k for k, v in fam_lookup.RULES.items()}[body["rule"]]
    size, keys = body["size"], body["keys"]
    enc, dec = fam_lookup.new_pair(size)
    obs = []
    what = None
    for i, k in enumerate(keys):
        o = fam_lookup.impl_use(rule, enc, dec, k)
        obs.append(o)
        v = fam_lookup.mirror_violation(rule, size, enc, dec, k, o)
        if v and not what:
            what = f"step {i} key {k!r}: {v}"
    model = ctx.driver.ask(fam_lookup.lk_cmd(rule, size, keys))
    print("impl :", " ".join(obs))
    print("model:", model)
    if what:
        return what
    if " ".join(obs) != model:
        return "model and implementation disagree"
    return None


REPLAYERS["LK"] = replay_lk
REPLAYERS["LKX"] = replay_lk


def replay(pid: str, body: dict) -> int:
    import replays

    return replays.replay(pid, body)


import checks_b  # noqa: E402,F401  (registers C06..C10)
import checks_c  # noqa: E402,F401  (registers C11..C15)
import checks_d  # noqa: E402,F401  (registers C16..C20)
