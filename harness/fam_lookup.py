"""fam_lookup.py -- families LK (random histories) and LKX (exhaustive joint state space) tying
model/Lookup.v to pyjelly/serialize/lookup.py + pyjelly/parse/lookup.py, with the mirror
predicate of C05 evaluated on the real objects as the search oracle."""
from __future__ import annotations

import copy

from core import hx, plookup, slookup

RULES = {"n": "name", "p": "prefix", "d": "datatype"}


def impl_use(rule: str, enc, dec, key: str) -> str:
    """One use of a key on the real LookupEncoder/LookupDecoder; same text as the driver's LK."""
    try:
        e = enc.encode_entry_index(key)
        if e is not None:
            dec.assign_entry(e, key)
        if rule == "n":
            t = enc.encode_name_term_index(key)
        elif rule == "p":
            t = enc.encode_prefix_term_index(key)
        else:
            t = enc.encode_datatype_term_index(key)
    except Exception:  # noqa: BLE001
        return "[X]"
    try:
        if rule == "n":
            r = dec.decode_name_term_index(t)
        elif rule == "p":
            r = dec.decode_prefix_term_index(t)
        else:
            r = dec.decode_datatype_term_index(t)
        rs = hx(r)
    except Exception:  # noqa: BLE001
        rs = "!"
    return (
        f"[e={'-' if e is None else e} t={t} r={rs} w={len(enc.lookup.data)} "
        f"la={enc.last_assigned_index}/{dec.last_assigned_index} lr={enc.last_reused_index}/{dec.last_reused_index}]"
    )


def mirror_violation(rule: str, size: int, enc, dec, key: str, obs: str) -> str | None:
    """C05's own predicate on the real objects after one use; None if it holds."""
    if obs == "[X]":
        return "writer raised"
    f = dict(p.split("=", 1) for p in obs[1:-1].split(" "))
    if f["r"] == "!":
        return "reader raised on an index the writer emitted"
    if f["r"] != hx(key):
        return f"index resolves to {f['r']} instead of {hx(key)}"
    if len(enc.lookup.data) > size:
        return "more live entries than the table size"
    if f["e"] != "-" and not (0 <= int(f["e"]) <= size):
        return "entry id out of [0,size]"
    if not (0 <= int(f["t"]) <= size):
        return "term id out of [0,size]"
    # every live writer entry must resolve on the reader
    for k, i in enc.lookup.data.items():
        if not (1 <= i <= size) or dec.data[i - 1] != k:
            return f"writer entry {k!r}->{i} not mirrored on the reader"
    return None


def new_pair(size: int):
    return slookup.LookupEncoder(lookup_size=size), plookup.LookupDecoder(lookup_size=size)


def lk_cmd(rule: str, size: int, keys: list[str]) -> str:
    return f"LK {rule} {size} {len(keys)} " + " ".join(hx(k) for k in keys)


def alphabet(rule: str, size: int) -> list[str]:
    keys = [f"k{i}" for i in range(size + 2)]
    if rule == "p":
        keys[0] = ""  # the empty prefix takes part in the prefix rule
    return keys


def fam_lk(ctx, rule: str, n_hist: int, max_len: int, sizes=range(1, 9)):
    """Random long histories.  Returns list of disagreement dicts."""
    r = ctx.rng
    out = []
    cmds, expect, metas = [], [], []
    for _ in range(n_hist):
        size = r.choice(list(sizes))
        alpha = alphabet(rule, size)
        # skewed choice so that hits and evictions both occur
        L = r.randint(1, max_len)
        keys = []
        for _ in range(L):
            if keys and r.random() < 0.3:
                keys.append(r.choice(keys[-size:]))
            else:
                keys.append(r.choice(alpha))
        enc, dec = new_pair(size)
        obs = []
        viol = None
        for i, k in enumerate(keys):
            o = impl_use(rule, enc, dec, k)
            obs.append(o)
            if viol is None:
                v = mirror_violation(rule, size, enc, dec, k, o)
                if v:
                    viol = (i, v)
            if o == "[X]":
                break
        cmds.append(lk_cmd(rule, size, keys))
        expect.append(" ".join(obs))
        metas.append((size, keys, viol))
        ctx.report.evaluations += len(keys)
        ctx.report.count(f"LK/{rule}/size{size}")
        if len(set(keys)) > size:
            ctx.report.nontrivial.add((rule, size, tuple(keys)))
    replies = ctx.driver.ask_many(cmds)
    for cmd, exp, got, (size, keys, viol) in zip(cmds, expect, replies, metas):
        if exp != got or viol:
            out.append(
                {"family": "LK", "rule": RULES[rule], "size": size, "keys": keys, "impl": exp, "model": got,
                 "property_violation": None if not viol else {"step": viol[0], "what": viol[1]}}
            )
    if cmds:
        ctx.report.sample({"family": "LK", "cmd": cmds[0][:300], "impl=model": expect[0][:300]})
    return out


def state_key(enc, dec):
    return (
        tuple(enc.lookup.data.items()), enc.lookup._evicting, enc.last_assigned_index, enc.last_reused_index,
        tuple(dec.data), dec.last_assigned_index, dec.last_reused_index,
    )


def fam_lkx(ctx, rule: str, size: int, limit_states: int | None = None):
    """Breadth-first closure of the joint reachable state space of the REAL classes, every
    transition compared with the model (replay of the shortest history) and checked
    against the mirror predicate."""
    alpha = alphabet(rule, size)
    enc0, dec0 = new_pair(size)
    seen = {state_key(enc0, dec0): ()}
    frontier = [((), enc0, dec0)]
    out = []
    states = 1
    transitions = 0
    while frontier:
        nxt = []
        cmds, expect, metas = [], [], []
        for hist, enc, dec in frontier:
            for k in alpha:
                e2, d2 = copy.deepcopy(enc), copy.deepcopy(dec)
                o = impl_use(rule, e2, d2, k)
                transitions += 1
                v = mirror_violation(rule, size, e2, d2, k, o)
                h2 = hist + (k,)
                cmds.append(lk_cmd(rule, size, list(h2)))
                expect.append(o)
                metas.append((h2, v))
                if o != "[X]":
                    sk = state_key(e2, d2)
                    if sk not in seen:
                        seen[sk] = h2
                        states += 1
                        nxt.append((h2, e2, d2))
        replies = ctx.driver.ask_many(cmds)
        for exp, got, (h2, v) in zip(expect, replies, metas):
            last = got.rsplit("[", 1)[-1]
            if "[" + last != exp or v:
                out.append({"family": "LKX", "rule": RULES[rule], "size": size, "keys": list(h2), "impl_last": exp,
                            "model_last": "[" + last, "property_violation": None if not v else {"step": len(h2) - 1, "what": v}})
        if out:
            break  # shortest counterexamples found at this depth
        frontier = nxt
        if limit_states and states > limit_states:
            ctx.report.notes.append(f"LKX {rule} size {size}: stopped at {states} states (limit)")
            break
    ctx.report.evaluations += transitions
    ctx.report.count(f"LKX/{rule}/size{size}/states", states)
    ctx.report.count(f"LKX/{rule}/size{size}/transitions", transitions)
    ctx.report.families.setdefault("LKX", []).append({"rule": RULES[rule], "size": size, "states": states, "transitions": transitions, "complete": not (limit_states and states > limit_states)})
    # every reachable state beyond the initial one is a distinct non-trivial case
    for sk, h in list(seen.items())[:0]:
        pass
    ctx.report.nontrivial.update(("LKX", rule, size, h) for h in list(seen.values()) if len(set(h)) > size)
    return out
