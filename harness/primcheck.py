"""primcheck.py -- coq/tie/PyPrims.v (the meaning the source ties give to Python's built-ins) against CPython.

PyPrims.v is trusted by the source ties: it says what OrderedDict.move_to_end / popitem(last=False) /
__setitem__ / __getitem__ / __contains__, deque indexing and assignment (negative indices, IndexError),
tuple repetition, deque(maxlen=), str.rpartition and set.add do.  This module runs random scripts of those
operations on the real Python objects and writes the same scripts as Coq `Example`s about the PyPrims
definitions; coqc evaluates them by vm_compute.  A difference = the trusted layer does not describe CPython.
"""
from __future__ import annotations

import random
from collections import OrderedDict, deque


def zlist(xs) -> str:
    return "[" + "; ".join(f"({x})" for x in xs) + "]"


def kstr(s: str) -> str:
    return zlist([ord(c) for c in s])


def od_lit(d: OrderedDict) -> str:
    return "[" + "; ".join(f"({kstr(k)}, ({v}))" for k, v in d.items()) + "]"


def opt(x, f) -> str:
    return "None" if x is None else f"(Some {f(x)})"


def gen_cases(rng: random.Random, n: int) -> list[str]:
    out: list[str] = []
    keys = ["", "a", "b", "ab", "ba", "c"]
    eqb = "(list_eqb Z.eqb)"
    # ---- OrderedDict scripts
    for _ in range(n):
        d: OrderedDict[str, int] = OrderedDict()
        for _ in range(rng.randint(0, 5)):
            d[rng.choice(keys)] = rng.randint(0, 9)
        before = od_lit(d)
        op = rng.choice(["move", "pop", "set", "get", "in", "len"])
        k = rng.choice(keys)
        if op == "move":
            try:
                d.move_to_end(k)
                res = f"Val {od_lit(d)}"
            except KeyError:
                res = "Exn KeyError"
            out.append(f"od_move_to_end {eqb} {kstr(k)} {before} = {res}")
        elif op == "pop":
            try:
                kk, vv = d.popitem(last=False)
                res = f"Val (({kstr(kk)}, ({vv})), {od_lit(d)})"
            except KeyError:
                res = "Exn KeyError"
            out.append(f"od_popitem_first (K := list Z) {before} = {res}")
        elif op == "set":
            v = rng.randint(0, 9)
            d[k] = v
            out.append(f"od_set {eqb} {kstr(k)} ({v}) {before} = {od_lit(d)}")
        elif op == "get":
            try:
                res = f"Val ({d[k]})"
            except KeyError:
                res = "Exn KeyError"
            out.append(f"od_get {eqb} {kstr(k)} {before} = {res}")
        elif op == "in":
            out.append(f"od_contains {eqb} {kstr(k)} {before} = {'true' if k in d else 'false'}")
        else:
            out.append(f"od_len (K := list Z) {before} = ({len(d)})")
    # ---- deque indexing
    for _ in range(n):
        size = rng.randint(0, 4)
        items = [rng.choice([None, 1, 2, 3]) for _ in range(size)]
        dq = deque(items, maxlen=size)
        lit = "[" + "; ".join(opt(x, lambda v: f"({v})") for x in items) + "]"
        i = rng.randint(-size - 2, size + 2)
        if rng.random() < 0.5:
            try:
                res = f"Val {opt(dq[i], lambda v: f'({v})')}"
            except IndexError:
                res = "Exn IndexError"
            out.append(f"seq_get (A := option Z) {lit} ({i}) = {res}")
        else:
            try:
                dq[i] = 7
                res = "Val [" + "; ".join(opt(x, lambda v: f"({v})") for x in dq) + "]"
            except IndexError:
                res = "Exn IndexError"
            out.append(f"seq_set (A := option Z) {lit} ({i}) (Some 7) = {res}")
    # ---- tuple repetition and deque(maxlen)
    for _ in range(n // 2):
        k = rng.randint(-2, 5)
        out.append(f"tuple_repeat (A := option Z) None ({k}) = [" + "; ".join("None" for _ in (None,) * k) + "]")
        items = [rng.randint(0, 9) for _ in range(rng.randint(0, 5))]
        ml = rng.randint(-1, 6)
        try:
            res = "Val " + zlist(list(deque(items, maxlen=ml)))
        except ValueError:
            res = "Exn ValueError"
        out.append(f"deque_make (A := Z) {zlist(items)} ({ml}) = {res}")
    # ---- str.rpartition
    alphabet = "ab/#"
    for _ in range(n):
        s = "".join(rng.choice(alphabet) for _ in range(rng.randint(0, 7)))
        sep = "".join(rng.choice(alphabet) for _ in range(rng.choice([0, 1, 1, 1, 2])))
        try:
            a, b, c = s.rpartition(sep)
            res = f"Val ({kstr(a)}, {kstr(b)}, {kstr(c)})"
        except ValueError:
            res = "Exn ValueError"
        out.append(f"py_rpartition Z.eqb {kstr(s)} {kstr(sep)} = {res}")
    # ---- set.add / len
    for _ in range(n // 2):
        st: set[str] = set()
        lst: list[str] = []
        for _ in range(rng.randint(0, 5)):
            k = rng.choice(keys)
            st.add(k)
            lst = [k] + lst if k not in lst else lst  # PyPrims keeps the newest first; only the size and membership are observable
        k = rng.choice(keys)
        before = "[" + "; ".join(kstr(x) for x in lst) + "]"
        st.add(k)
        out.append(f"seq_len (set_add {eqb} {kstr(k)} {before}) = ({len(st)})")
    return out


def gen_dict_cases(rng: random.Random, n: int) -> list[str]:
    """dict[str, V] (ad_set / ad_get / ad_find in PyPrims: insertion order, replacement in place, KeyError)."""
    out: list[str] = []
    keys = ["", "a", "b", "ab", "ba", "c"]
    eqb = "(list_eqb Z.eqb)"
    for _ in range(n):
        d: dict[str, int] = {}
        for _ in range(rng.randint(0, 5)):
            d[rng.choice(keys)] = rng.randint(0, 9)
        before = od_lit(d)  # same literal shape: [(key, value); ..] in insertion order
        k = rng.choice(keys)
        if rng.random() < 0.5:
            v = rng.randint(0, 9)
            d[k] = v
            out.append(f"ad_set (V := Z) {eqb} {kstr(k)} ({v}) {before} = {od_lit(d)}")
        else:
            try:
                res = f"Val ({d[k]})"
            except KeyError:
                res = "Exn KeyError"
            out.append(f"ad_get (V := Z) {eqb} {kstr(k)} {before} = {res}")
    return out


def gen_msg_cases(rng: random.Random, n: int) -> list[str]:
    """Reading protobuf message objects (msg_int / msg_str / msg_has / msg_which / msg_field / pb_kind / msg_rep in
    PyPrims) against the real generated classes: a random history of assignments builds the object and, with msg_set
    and the oneof groups of the descriptor, the PyPrims value; then one read of each kind is compared."""
    from pyjelly.jelly import rdf_pb2 as pb

    out: list[str] = []

    def group_of(cls, field: str) -> list[str]:
        fd = cls.DESCRIPTOR.fields_by_name[field]
        if fd.containing_oneof is not None:
            return [f.name for f in fd.containing_oneof.fields]
        return [field]

    def gl(names) -> str:
        return "[" + "; ".join(f'"{x}"%string' for x in names) + "]"

    def s() -> str:
        return "".join(rng.choice("ab") for _ in range(rng.randint(0, 2)))

    def iri():
        a, b = rng.randint(0, 3), rng.randint(0, 3)
        return pb.RdfIri(prefix_id=a, name_id=b), ("(PMsg \"RdfIri\" ([] " + (f'++ [("prefix_id"%string, PInt ({a}))]' if True else "") +
                                                   f' ++ [("name_id"%string, PInt ({b}))]))')

    for _ in range(n):
        kind = rng.choice(["lit", "triple", "quad", "gstart", "row"])
        if kind == "lit":
            m = pb.RdfLiteral()
            term = 'PMsg "RdfLiteral" []'
            for _ in range(rng.randint(0, 4)):
                f = rng.choice(["lex", "langtag", "datatype"])
                if f == "datatype":
                    v = rng.randint(0, 3)
                    m.datatype = v
                    val = f"PInt ({v})"
                else:
                    v = s()
                    setattr(m, f, v)
                    val = f"PStr {kstr(v)}"
                term = f'msg_set {gl(group_of(pb.RdfLiteral, f))} "{f}" ({val}) ({term})'
            which = m.WhichOneof("literalKind")
            grp = gl(group_of(pb.RdfLiteral, "langtag"))
            out.append(f'msg_which (K := list Z) {grp} ({term}) = ' + ("None" if which is None else f'Some "{which}"%string'))
            out.append(f'msg_has (K := list Z) "datatype" ({term}) = {"true" if m.HasField("datatype") else "false"}')
            out.append(f'msg_str (K := list Z) [] "langtag" ({term}) = {kstr(m.langtag)}')
            out.append(f'msg_str (K := list Z) [] "lex" ({term}) = {kstr(m.lex)}')
            out.append(f'msg_int (K := list Z) "datatype" ({term}) = ({m.datatype})')
        elif kind in ("triple", "quad", "gstart"):
            cls = {"triple": pb.RdfTriple, "quad": pb.RdfQuad, "gstart": pb.RdfGraphStart}[kind]
            m = cls()
            term = f'PMsg "{cls.DESCRIPTOR.name}" []'
            fields = [f.name for f in cls.DESCRIPTOR.fields]
            for _ in range(rng.randint(0, 5)):
                f = rng.choice(fields)
                fd = cls.DESCRIPTOR.fields_by_name[f]
                if fd.type == fd.TYPE_STRING:
                    v = s()
                    setattr(m, f, v)
                    val = f"PStr {kstr(v)}"
                elif fd.message_type.name == "RdfIri":
                    o, val = iri()
                    getattr(m, f).CopyFrom(o)
                elif fd.message_type.name == "RdfLiteral":
                    lx = s()
                    getattr(m, f).CopyFrom(pb.RdfLiteral(lex=lx))
                    val = f'PMsg "RdfLiteral" [("lex"%string, PStr {kstr(lx)})]'
                else:  # RdfTriple, RdfDefaultGraph
                    getattr(m, f).CopyFrom(fd.message_type._concrete_class())
                    val = f'PMsg "{fd.message_type.name}" []'
                term = f'msg_set {gl(group_of(cls, f))} "{f}" ({val}) ({term})'
            for oneof in cls.DESCRIPTOR.oneofs:
                grp = gl([f.name for f in oneof.fields])
                which = m.WhichOneof(oneof.name)
                out.append(f'msg_which (K := list Z) {grp} ({term}) = ' + ("None" if which is None else f'Some "{which}"%string'))
                if which is not None:
                    got = getattr(m, which)
                    knd = "str" if isinstance(got, str) else type(got).DESCRIPTOR.name
                    out.append(f'option_map (pb_kind (K := list Z)) (msg_field "{which}" ({term})) = Some "{knd}"%string')
                    if knd == "RdfIri":
                        out.append(f'option_map (msg_int (K := list Z) "name_id") (msg_field "{which}" ({term})) = Some ({got.name_id})')
                    if knd == "str":
                        out.append(f'option_map (pb_as_str (K := list Z) []) (msg_field "{which}" ({term})) = Some {kstr(got)}')
        else:
            # a frame of rows: the repeated field and WhichOneof("row") of each
            fr = pb.RdfStreamFrame()
            rows_t = []
            members = [f.name for f in pb.RdfStreamRow.DESCRIPTOR.oneofs_by_name["row"].fields]
            for _ in range(rng.randint(0, 3)):
                row = fr.rows.add()
                t = 'PMsg "RdfStreamRow" []'
                for _ in range(rng.randint(0, 2)):
                    f = rng.choice(members)
                    getattr(row, f).SetInParent()
                    sub = pb.RdfStreamRow.DESCRIPTOR.fields_by_name[f].message_type.name
                    t = f'msg_set {gl(members)} "{f}" (PMsg "{sub}" []) ({t})'
                rows_t.append((row, t))
            ft = 'PMsg "RdfStreamFrame" [("rows"%string, PRep [' + "; ".join(t for _, t in rows_t) + "])]"
            exp = "[" + "; ".join("None" if r.WhichOneof("row") is None else f'Some "{r.WhichOneof("row")}"%string' for r, _ in rows_t) + "]"
            out.append(f'map (msg_which (K := list Z) {gl(members)}) (msg_rep "rows" ({ft})) = {exp}')
            kinds = "[" + "; ".join("None" if r.WhichOneof("row") is None else f'Some "{type(getattr(r, r.WhichOneof("row"))).DESCRIPTOR.name}"%string'
                                    for r, _ in rows_t) + "]"
            out.append(f'map (fun r => match msg_which (K := list Z) {gl(members)} r with Some f => option_map (pb_kind (K := list Z)) (msg_field f r) | None => None end) '
                       f'(msg_rep "rows" ({ft})) = {kinds}')
    return out


def coq_file(cases: list[str]) -> str:
    body = ["From PJ.Tie Require Import PyPrims.", "Local Open Scope Z_scope."]
    for i, c in enumerate(cases):
        body.append(f"Example prim{i} : {c}.\nProof. vm_compute. reflexivity. Qed.")
    return "\n".join(body) + "\n"
