"""primcheck.py -- coq/tie/PyPrims.v (the meaning the source ties give to Python's built-ins) against CPython.

PyPrims.v is trusted by the source ties: it says what OrderedDict.move_to_end / popitem(last=False) /
__setitem__ / __getitem__ / __contains__, deque indexing and assignment (negative indices, IndexError),
tuple repetition, deque(maxlen=), str.rpartition and set.add do.  This module runs random scripts of those
operations on the real Python objects and writes the same scripts as Coq `Example`s about the PyPrims
definitions; coqc evaluates them by vm_compute.  A difference = the trusted layer does not describe CPython.
"""
from __future__ import annotations

import random
from collections import OrderedDict, deque


def zlist(xs) -> str:
    return "[" + "; ".join(f"({x})" for x in xs) + "]"


def kstr(s: str) -> str:
    return zlist([ord(c) for c in s])


def od_lit(d: OrderedDict) -> str:
    return "[" + "; ".join(f"({kstr(k)}, ({v}))" for k, v in d.items()) + "]"


def opt(x, f) -> str:
    return "None" if x is None else f"(Some {f(x)})"


def gen_cases(rng: random.Random, n: int) -> list[str]:
    out: list[str] = []
    keys = ["", "a", "b", "ab", "ba", "c"]
    eqb = "(list_eqb Z.eqb)"
    # ---- OrderedDict scripts
    for _ in range(n):
        d: OrderedDict[str, int] = OrderedDict()
        for _ in range(rng.randint(0, 5)):
            d[rng.choice(keys)] = rng.randint(0, 9)
        before = od_lit(d)
        op = rng.choice(["move", "pop", "set", "get", "in", "len"])
        k = rng.choice(keys)
        if op == "move":
            try:
                d.move_to_end(k)
                res = f"Val {od_lit(d)}"
            except KeyError:
                res = "Exn KeyError"
            out.append(f"od_move_to_end {eqb} {kstr(k)} {before} = {res}")
        elif op == "pop":
            try:
                kk, vv = d.popitem(last=False)
                res = f"Val (({kstr(kk)}, ({vv})), {od_lit(d)})"
            except KeyError:
                res = "Exn KeyError"
            out.append(f"od_popitem_first (K := list Z) {before} = {res}")
        elif op == "set":
            v = rng.randint(0, 9)
            d[k] = v
            out.append(f"od_set {eqb} {kstr(k)} ({v}) {before} = {od_lit(d)}")
        elif op == "get":
            try:
                res = f"Val ({d[k]})"
            except KeyError:
                res = "Exn KeyError"
            out.append(f"od_get {eqb} {kstr(k)} {before} = {res}")
        elif op == "in":
            out.append(f"od_contains {eqb} {kstr(k)} {before} = {'true' if k in d else 'false'}")
        else:
            out.append(f"od_len (K := list Z) {before} = ({len(d)})")
    # ---- deque indexing
    for _ in range(n):
        size = rng.randint(0, 4)
        items = [rng.choice([None, 1, 2, 3]) for _ in range(size)]
        dq = deque(items, maxlen=size)
        lit = "[" + "; ".join(opt(x, lambda v: f"({v})") for x in items) + "]"
        i = rng.randint(-size - 2, size + 2)
        if rng.random() < 0.5:
            try:
                res = f"Val {opt(dq[i], lambda v: f'({v})')}"
            except IndexError:
                res = "Exn IndexError"
            out.append(f"seq_get (A := option Z) {lit} ({i}) = {res}")
        else:
            try:
                dq[i] = 7
                res = "Val [" + "; ".join(opt(x, lambda v: f"({v})") for x in dq) + "]"
            except IndexError:
                res = "Exn IndexError"
            out.append(f"seq_set (A := option Z) {lit} ({i}) (Some 7) = {res}")
    # ---- tuple repetition and deque(maxlen)
    for _ in range(n // 2):
        k = rng.randint(-2, 5)
        out.append(f"tuple_repeat (A := option Z) None ({k}) = [" + "; ".join("None" for _ in (None,) * k) + "]")
        items = [rng.randint(0, 9) for _ in range(rng.randint(0, 5))]
        ml = rng.randint(-1, 6)
        try:
            res = "Val " + zlist(list(deque(items, maxlen=ml)))
        except ValueError:
            res = "Exn ValueError"
        out.append(f"deque_make (A := Z) {zlist(items)} ({ml}) = {res}")
    # ---- str.rpartition
    alphabet = "ab/#"
    for _ in range(n):
        s = "".join(rng.choice(alphabet) for _ in range(rng.randint(0, 7)))
        sep = "".join(rng.choice(alphabet) for _ in range(rng.choice([0, 1, 1, 1, 2])))
        try:
            a, b, c = s.rpartition(sep)
            res = f"Val ({kstr(a)}, {kstr(b)}, {kstr(c)})"
        except ValueError:
            res = "Exn ValueError"
        out.append(f"py_rpartition Z.eqb {kstr(s)} {kstr(sep)} = {res}")
    # ---- set.add / len
    for _ in range(n // 2):
        st: set[str] = set()
        lst: list[str] = []
        for _ in range(rng.randint(0, 5)):
            k = rng.choice(keys)
            st.add(k)
            lst = [k] + lst if k not in lst else lst  # PyPrims keeps the newest first; only the size and membership are observable
        k = rng.choice(keys)
        before = "[" + "; ".join(kstr(x) for x in lst) + "]"
        st.add(k)
        out.append(f"seq_len (set_add {eqb} {kstr(k)} {before}) = ({len(st)})")
    return out


def coq_file(cases: list[str]) -> str:
    body = ["From PJ.Tie Require Import PyPrims.", "Local Open Scope Z_scope."]
    for i, c in enumerate(cases):
        body.append(f"Example prim{i} : {c}.\nProof. vm_compute. reflexivity. Qed.")
    return "\n".join(body) + "\n"
