"""gen.py -- input generators.  Every random choice comes from one random.Random instance.

Alphabets are deliberately small so that repeats, lookup hits and evictions are frequent.
"""
from __future__ import annotations

import random

from core import Cfg, Other, XSD_STRING, gs

PREFIXES = [
    "http://a.org/",
    "http://a.org/x#",
    "http://b.org/ns/",
    "urn:c:",
    "",
    "http://d.org/é/",
    "http://e.org/p/q/",
    "http://f.org#",
]
NAMES = ["s", "p", "o", "x1", "x2", "name", "", "ü", "a-b", "n3", "n4", "n5", "n6", "n7", "n8", "n9"]
DATATYPES = [
    "http://www.w3.org/2001/XMLSchema#integer",
    "http://www.w3.org/2001/XMLSchema#date",
    XSD_STRING,
    "http://dt.org/one",
    "http://dt.org/two",
    "urn:dt",
]
LANGS = ["en", "en-GB", "de", "pl"]
LEXES = ["", "a", "1", "01", "hello world", "zażółć", "x" * 40, "true"]
BNODES = ["b0", "b1", "", "genid-7"]


class Gen:
    def __init__(self, rng: random.Random, nprefix: int = 4, nname: int = 6, ndt: int = 3) -> None:
        self.r = rng
        self.prefixes = rng.sample(PREFIXES, min(nprefix, len(PREFIXES)))
        self.names = rng.sample(NAMES, min(nname, len(NAMES)))
        self.dts = rng.sample(DATATYPES, min(ndt, len(DATATYPES)))
        # the spelling of language tags in THIS data set: as listed, all upper case or all lower case -- one spelling per data set
        # (rdflib's Literal == ignores the case of the tag: two spellings of one tag next to each other are one term for it), another
        # in the next one (what a process remembers about a literal of an earlier stream must not show in a later one).  Derived
        # from what was drawn already: the sequence of random draws is the one it was
        self.tag_style = {0: str.upper, 1: str.lower}.get((len(self.prefixes) * 7 + len(self.names) * 3 + len(self.dts)) % 6, str)

    def iri(self) -> gs.IRI:
        r = self.r
        return gs.IRI(r.choice(self.prefixes) + r.choice(self.names))

    def bnode(self) -> gs.BlankNode:
        if self.r.random() < 0.12:
            # a blank-node label that is, as a string, one of the IRIs of the same stream
            return gs.BlankNode(self.r.choice(self.prefixes) + self.r.choice(self.names))
        return gs.BlankNode(self.r.choice(BNODES))

    def literal(self, typed: bool = True) -> gs.Literal:
        r = self.r
        k = r.random()
        lex = r.choice(LEXES)
        if k < 0.35:
            return gs.Literal(lex)
        if k < 0.6:
            return gs.Literal(lex, langtag=self.tag_style(r.choice(LANGS)))
        if typed:
            return gs.Literal(lex, datatype=r.choice(self.dts))
        return gs.Literal(lex)

    def term(self, depth: int = 0, typed: bool = True, quoted: bool = True) -> object:
        r = self.r
        k = r.random()
        if k < 0.5:
            return self.iri()
        if k < 0.65:
            return self.bnode()
        if k < 0.9 or depth >= 2 or not quoted:
            return self.literal(typed)
        return gs.Triple(
            self.term(depth + 1, typed, quoted), self.term(depth + 1, typed, quoted), self.term(depth + 1, typed, quoted)
        )

    def graph(self, typed: bool = True) -> object:
        r = self.r
        k = r.random()
        if k < 0.3:
            return gs.DefaultGraph
        if k < 0.75:
            return self.iri()
        if k < 0.9:
            return self.bnode()
        return self.literal(typed)

    def statements(self, n: int, arity: int, typed: bool = True, quoted: bool = True, prepeat: float = 0.55) -> list:
        out = []
        prev = None
        for _ in range(n):
            cur = []
            for i in range(arity):
                if prev is not None and self.r.random() < prepeat:
                    cur.append(prev[i])
                elif prev is not None and i < 3 and typed and isinstance(prev[i], gs.Literal) and self.r.random() < 0.2 \
                        and prev[i]._langtag is None and prev[i]._datatype in (None, XSD_STRING):
                    # the same lexical form in the other spelling: plain <-> typed xsd:string (different API terms,
                    # one wire form)
                    cur.append(gs.Literal(prev[i]._lex, datatype=None if prev[i]._datatype else XSD_STRING))
                elif i == 3:
                    cur.append(self.graph(typed))
                else:
                    cur.append(self.term(0, typed, quoted))
            st = gs.Triple(*cur) if arity == 3 else gs.Quad(*cur)
            out.append(st)
            prev = st
        return out

    def namespaces(self, n: int) -> list[tuple[str, str]]:
        names = self.r.sample(["", "ex", "foaf", "é", "a", "b", "c", "d"], n)
        return [(nm, self.r.choice(PREFIXES[:4] + ["http://noslash", "urn:x:é"]) + self.r.choice(["", "v/", "w#"])) for nm in names]


def table_need(stmts: list) -> tuple[int, int, int]:
    """Most distinct (names, prefixes, datatypes) any single statement needs (prefix table on)."""
    from pyjelly.serialize.encode import split_iri

    best = [0, 0, 0]

    def walk(t, acc):
        if isinstance(t, gs.IRI):
            p, n = split_iri(t._iri)
            acc[0].add(n)
            acc[1].add(p)
            acc[3].add(t._iri)
        elif isinstance(t, gs.Literal):
            if t._datatype and t._datatype != XSD_STRING:
                acc[2].add(t._datatype)
        elif isinstance(t, gs.Triple):
            for x in t:
                walk(x, acc)

    for st in stmts:
        acc = (set(), set(), set(), set())
        for t in st:
            walk(t, acc)
        best[0] = max(best[0], len(acc[0]), len(acc[3]))
        best[1] = max(best[1], len(acc[1]))
        best[2] = max(best[2], len(acc[2]))
    return tuple(best)


def random_cfg(r: random.Random, cls: str, need=(0, 0, 0), flat: bool = True) -> Cfg:
    """A configuration in which every enabled table fits one statement (C01's domain)."""
    nn, np_, nd_ = need
    maxn = r.choice([max(8, nn), max(8, nn) + 1, max(8, nn) + r.randint(0, 6), 4000])
    maxp = r.choice([0, max(1, np_), max(1, np_) + 1, max(1, np_) + r.randint(0, 3), 150])
    maxd = r.choice([max(1, nd_), max(1, nd_) + 1, 32]) if nd_ else r.choice([0, 1, 2, 32])
    logical = {"T": 1, "Q": 2, "G": 2}[cls] if flat else 0
    return Cfg(
        cls=cls,
        frame_size=r.choice([1, 2, 3, 7, 250]),
        logical=logical,
        maxn=maxn,
        maxp=maxp,
        maxd=maxd,
        name=r.choice(["", "", "näme"]),
    )
