"""core.py -- shared machinery of the correspondence harness.

* makes sure pyjelly is imported from the repository working tree (never the wheel in /venv),
* talks to the extracted model through the OCaml driver,
* canonical text forms of terms / events / traces shared by both sides.
"""
from __future__ import annotations

import io
import json
import os
import subprocess
import sys
import time
from dataclasses import dataclass, field
from pathlib import Path

VERIF = Path(__file__).resolve().parent.parent
REPO = os.environ.get("VERIF_REPO", "/repo")
DRIVER = str(VERIF / "_build" / "driver")

if sys.path[0] != REPO:
    sys.path.insert(0, REPO)

import logging  # noqa: E402

logging.getLogger("rdflib").setLevel(logging.CRITICAL)
logging.getLogger("rdflib.term").setLevel(logging.CRITICAL)
import pyjelly  # noqa: E402
from pyjelly import jelly  # noqa: E402
from pyjelly.integrations.generic import generic_sink as gs  # noqa: E402
from pyjelly.integrations.generic import parse as gparse  # noqa: E402
from pyjelly.integrations.generic import serialize as gser  # noqa: E402
from pyjelly.options import LookupPreset, StreamParameters  # noqa: E402
from pyjelly.parse import ioutils as pio  # noqa: E402
from pyjelly.parse import lookup as plookup  # noqa: E402
from pyjelly.serialize import flows, streams  # noqa: E402
from pyjelly.serialize import lookup as slookup  # noqa: E402
from pyjelly.serialize.streams import SerializerOptions  # noqa: E402


def assert_origin() -> None:
    """Every pyjelly module must be a .py file of the working tree."""
    bad = []
    for name, mod in list(sys.modules.items()):
        if name == "pyjelly" or name.startswith("pyjelly."):
            f = getattr(mod, "__file__", None)
            if f is None:
                continue
            if not (f.startswith(REPO + "/") and f.endswith(".py")):
                bad.append((name, f))
    if bad:
        raise SystemExit(f"pyjelly is not imported from {REPO}: {bad[:3]}")


assert_origin()

XSD_STRING = "http://www.w3.org/2001/XMLSchema#string"


# ---------------------------------------------------------------- driver
class Driver:
    def __init__(self) -> None:
        if not os.path.exists(DRIVER):
            raise SystemExit(f"{DRIVER} missing: run `make -C {VERIF} build`")
        def _big_stack() -> None:
            # the extracted functions recurse over row lists (not tail-recursively): long inputs
            # of the thorough tier need more than the default 8 MB of native stack
            import resource

            try:
                hard = resource.getrlimit(resource.RLIMIT_STACK)[1]
                resource.setrlimit(resource.RLIMIT_STACK, (hard, hard))
            except Exception:  # noqa: BLE001
                pass

        self.p = subprocess.Popen(
            [DRIVER], stdin=subprocess.PIPE, stdout=subprocess.PIPE, preexec_fn=_big_stack
        )
        self.calls = 0
        # a spread sample of the commands answered, per family, for the extraction cross-check
        self.sample: dict[str, list[str]] = {}
        self.seen: dict[str, int] = {}
        self.sample_cap = 8

    XC_FAMILIES = ("LK", "EN", "PA", "SB", "AU")

    def _record(self, line: str) -> None:
        fam = line[:2]
        if fam not in self.XC_FAMILIES or len(line) > 6000:
            return
        n = self.seen.get(fam, 0)
        self.seen[fam] = n + 1
        bucket = self.sample.setdefault(fam, [])
        if len(bucket) < self.sample_cap:
            bucket.append(line)
        elif n % 7 == 0:
            bucket[(n // 7) % self.sample_cap] = line   # keep later commands in the sample too

    def ask(self, line: str) -> str:
        assert "\n" not in line
        self._record(line)
        self.p.stdin.write(line.encode() + b"\n")
        self.p.stdin.flush()
        out = self.p.stdout.readline()
        if not out:
            raise RuntimeError("model driver died on: " + line[:200])
        self.calls += 1
        return out.decode().rstrip("\n")

    def ask_many(self, lines: list[str]) -> list[str]:
        """Pipeline many commands; a reader thread drains the replies so that neither pipe fills."""
        if not lines:
            return []
        for ln in lines:
            self._record(ln)
        import threading

        out: list[str] = []
        err: list[BaseException] = []

        def reader() -> None:
            try:
                for _ in lines:
                    o = self.p.stdout.readline()
                    if not o:
                        raise RuntimeError("model driver died")
                    out.append(o.decode().rstrip("\n"))
            except BaseException as e:  # noqa: BLE001
                err.append(e)

        t = threading.Thread(target=reader)
        t.start()
        try:
            for i in range(0, len(lines), 100):
                self.p.stdin.write(("\n".join(lines[i : i + 100]) + "\n").encode())
            self.p.stdin.flush()
        finally:
            t.join()
        if err:
            raise err[0]
        self.calls += len(lines)
        return out

    def close(self) -> None:
        try:
            self.p.stdin.close()
            self.p.wait(timeout=5)
        except Exception:  # noqa: BLE001
            self.p.kill()


# ---------------------------------------------------------------- text forms
def hx(s: str | bytes) -> str:
    if isinstance(s, str):
        s = s.encode("utf-8")
    return "x" + s.hex()


def unhx(t: str) -> bytes:
    assert t[0] == "x"
    return bytes.fromhex(t[1:])


def ohx(s: str | None) -> str:
    return "-" if s is None else hx(s)


class Other:
    """A term no encoder knows."""

    def __repr__(self) -> str:
        return "Other()"


def term_tok(t: object) -> str:
    """Generic API term -> model token string."""
    if isinstance(t, gs.IRI):
        return "I " + hx(t._iri)
    if isinstance(t, gs.BlankNode):
        return "B " + hx(t._identifier)
    if isinstance(t, gs.Literal):
        return f"L {hx(t._lex)} {ohx(t._langtag)} {ohx(t._datatype)}"
    if isinstance(t, gs.Triple):
        return "T " + " ".join(term_tok(x) for x in t)
    if t is gs.DefaultGraph:
        return "D"
    if isinstance(t, tuple) and len(t) == 3:  # plain tuple used as quoted triple
        return "O"
    return "O"


def stmt_tok(st: tuple) -> str:
    return f"{len(st)} " + " ".join(term_tok(x) for x in st) if len(st) else "0"


def stmts_tok(sts: list) -> str:
    return f"{len(sts)} " + " ".join(stmt_tok(s) for s in sts) if sts else "0"


def ns_tok(ns: list[tuple[str, str]]) -> str:
    return f"{len(ns)} " + " ".join(f"{hx(a)} {hx(b)}" for a, b in ns) if ns else "0"


def event_tok(e: object) -> str:
    """Item yielded by the generic parsers -> model token string."""
    if isinstance(e, gs.Prefix):
        return f"EP {hx(e.prefix)} {hx(e.iri._iri)}"
    if isinstance(e, gs.Quad):
        return "EQ " + " ".join(term_tok(x) if x is not None else "NONE" for x in e)
    if isinstance(e, gs.Triple):
        return "ET " + " ".join(term_tok(x) for x in e)
    return "E?" + repr(e)


def norm_term(t):
    """xsd:string == plain literal (C01's notion of equality)."""
    if isinstance(t, gs.Literal):
        dt = t._datatype
        lang = t._langtag or None
        if dt == XSD_STRING or not dt:
            dt = None
        return gs.Literal(t._lex, lang, dt)
    if isinstance(t, gs.Triple):
        return gs.Triple(*(norm_term(x) for x in t))
    return t


# ---------------------------------------------------------------- configurations
FLOW_CLASSES = {
    "M": flows.ManualFrameFlow,
    "B": flows.BoundedFrameFlow,
    "FT": flows.FlatTriplesFrameFlow,
    "FQ": flows.FlatQuadsFrameFlow,
    "G": flows.GraphsFrameFlow,
    "D": flows.DatasetsFrameFlow,
}
STREAM_CLASSES = {"T": streams.TripleStream, "Q": streams.QuadStream, "G": streams.GraphStream}
LOGICALS = [0, 1, 2, 3, 4, 13, 14, 114]


@dataclass
class Cfg:
    ig: str = "g"  # g | r
    cls: str = "T"  # T | Q | G
    flow: tuple | None = None  # (kind, logical, frame_size) explicit flow
    frame_size: int = 250
    logical: int = 0
    gen: bool = True
    star: bool = True
    delim: bool = True
    nd: bool = False
    name: str = ""
    maxn: int = 4000
    maxp: int = 150
    maxd: int = 32
    ver: int | None = None  # StreamParameters(version=...) as the caller passes it; the model has no such input:
    # the declared version follows from namespace_declarations alone (C13)

    def tok(self) -> str:
        fl = "-" if self.flow is None else f"{self.flow[0]}:{self.flow[1]}:{self.flow[2]}"
        b = lambda x: "1" if x else "0"  # noqa: E731
        return (
            f"{self.ig} {self.cls} {fl} {self.frame_size} {self.logical} {b(self.gen)} {b(self.star)} "
            f"{b(self.delim)} {b(self.nd)} {hx(self.name)} {self.maxn} {self.maxp} {self.maxd}"
        )

    def as_json(self) -> dict:
        return dict(self.__dict__)


def make_options(cfg: Cfg):
    """SerializerOptions for a configuration, without building a stream (may raise)."""
    params = StreamParameters(
        generalized_statements=cfg.gen,
        rdf_star=cfg.star,
        delimited=cfg.delim,
        namespace_declarations=cfg.nd,
        stream_name=cfg.name,
        **({} if cfg.ver is None else {"version": cfg.ver}),
    )
    preset = LookupPreset(max_names=cfg.maxn, max_prefixes=cfg.maxp, max_datatypes=cfg.maxd)
    flow = None
    if cfg.flow is not None:
        k, lt, fs = cfg.flow
        flow = FLOW_CLASSES[k](logical_type=lt, frame_size=fs)
    return SerializerOptions(
        flow=flow, frame_size=cfg.frame_size, logical_type=cfg.logical, params=params, lookup_preset=preset
    )


def make_stream(cfg: Cfg):
    """Build the real stream object for a configuration (may raise)."""
    params = StreamParameters(
        generalized_statements=cfg.gen,
        rdf_star=cfg.star,
        delimited=cfg.delim,
        namespace_declarations=cfg.nd,
        stream_name=cfg.name,
        **({} if cfg.ver is None else {"version": cfg.ver}),
    )
    preset = LookupPreset(max_names=cfg.maxn, max_prefixes=cfg.maxp, max_datatypes=cfg.maxd)
    flow = None
    if cfg.flow is not None:
        k, lt, fs = cfg.flow
        flow = FLOW_CLASSES[k](logical_type=lt, frame_size=fs)
    opts = SerializerOptions(
        flow=flow, frame_size=cfg.frame_size, logical_type=cfg.logical, params=params, lookup_preset=preset
    )
    if cfg.ig == "g":
        enc = gser.GenericSinkTermEncoder(lookup_preset=preset)
    else:
        from pyjelly.integrations.rdflib.serialize import RDFLibTermEncoder

        enc = RDFLibTermEncoder(lookup_preset=preset)
    return STREAM_CLASSES[cfg.cls](encoder=enc, options=opts)


def frame_tok(frame) -> str:
    return "F" + hx(frame.SerializeToString(deterministic=True))


class PullLog:
    """Wrap a list as a generator that records each next() into a shared trace."""

    def __init__(self, items: list, trace: list[str]) -> None:
        self.it = iter(items)
        self.trace = trace

    def __iter__(self):
        return self

    def __next__(self):
        self.trace.append("P")
        return next(self.it)


def stream_end_tok(stream) -> str:
    return f"| flow={len(stream.flow)} failed={1 if getattr(stream, 'failed', False) else 0}"


def run_generic_stream_frames(cfg: Cfg, stmts: list, ns: list, sink: bool) -> str:
    """Implementation side of EN for the generic integration."""
    try:
        stream = make_stream(cfg)
    except Exception:  # noqa: BLE001
        return "ERRNEW"
    trace: list[str] = []
    if sink:
        data = gs.GenericStatementSink()
        for s in stmts:
            data.add(s)
        for a, b in ns:
            data.bind(a, gs.IRI(b))
    else:
        data = PullLog(stmts, trace)
    try:
        for fr in gser.stream_frames(stream, data):
            trace.append(frame_tok(fr))
    except Exception:  # noqa: BLE001
        trace.append("R")
    return " ".join(trace) + " " + stream_end_tok(stream)


def en_cmd(cfg: Cfg, stmts: list, ns: list, sink: bool) -> str:
    return f"EN {cfg.tok()} {1 if sink else 0} {ns_tok(ns)} {stmts_tok(stmts)}"


def strip_pulls(trace: str) -> str:
    return " ".join(t for t in trace.split(" ") if t != "P")


def trace_frames(trace: str) -> list[bytes]:
    return [unhx(t[1:]) for t in trace.split(" ") if t.startswith("Fx")]


# ---------------------------------------------------------------- parsing side
def run_generic_parse(data: bytes, grouped: bool, strict: bool, src=None) -> str:
    """Implementation side of PA (generic): same text as the driver's PA reply, minus pre=."""
    inp = src if src is not None else io.BytesIO(data)
    frames_out: list[str] = []
    end = "E"
    if grouped:
        from contextvars import ContextVar

        md: ContextVar = ContextVar("md")
        try:
            for sink in gparse.parse_jelly_grouped(inp, logical_type_strict=strict, frame_metadata=md):
                m = md.get()
                mdl = sorted((k, bytes(v)) for k, v in dict(m).items())
                evs = [("EP " + hx(k) + " " + hx(v._iri)) for k, v in sink.namespaces]
                # order inside a sink: prefixes are bound, statements are added; the model keeps
                # stream order, so compare statements and prefixes separately
                st = [event_tok(s) for s in sink]
                frames_out.append(("G", mdl, evs, st))
        except Exception:  # noqa: BLE001
            end = "R"
        return end, frames_out
    evs = []
    try:
        for item in gparse.parse_jelly_flat(inp, logical_type_strict=strict):
            evs.append(event_tok(item))
    except Exception:  # noqa: BLE001
        end = "R"
    return end, evs


def parse_pa_reply(reply: str):
    """Driver PA reply -> (pre, end, [(md, [events], ok)])"""
    assert reply.startswith("pre="), reply[:100]
    head, _, rest = reply.partition(" ")
    pre = int(head[4:])
    endtok, _, rest = rest.partition(" ")
    end = endtok[4:]
    frames = []
    rest = rest.strip()
    while rest:
        assert rest.startswith("{"), rest[:50]
        close = rest.index("}")
        body = rest[1:close].strip()
        rest = rest[close + 1 :].strip()
        mdpart, evpart, okpart = body.split(";")
        mdt = mdpart.split()
        n = int(mdt[0])
        md = [(unhx(mdt[1 + 2 * i]), unhx(mdt[2 + 2 * i])) for i in range(n)]
        frames.append((md, split_events(evpart.strip()), okpart.strip() == "ok"))
    return pre, end, frames


def split_events(s: str) -> list[str]:
    """Split 'ET .. EQ .. EP ..' into one string per event."""
    out: list[str] = []
    cur: list[str] = []
    for t in s.split():
        if t in ("ET", "EQ", "EP") and cur:
            out.append(" ".join(cur))
            cur = []
        cur.append(t)
    if cur:
        out.append(" ".join(cur))
    return out


# ---------------------------------------------------------------- evidence / reporting
@dataclass
class Report:
    prop: str
    tier: str
    seed: int
    t0: float = field(default_factory=time.time)
    evaluations: int = 0
    nontrivial: set = field(default_factory=set)
    samples: list = field(default_factory=list)
    histo: dict = field(default_factory=dict)
    violations: list = field(default_factory=list)  # (what, replay dict)
    known: list = field(default_factory=list)
    exhaustive: bool = False
    notes: list = field(default_factory=list)
    families: dict = field(default_factory=dict)

    def count(self, key: str, n: int = 1) -> None:
        self.histo[key] = self.histo.get(key, 0) + n

    def sample(self, s) -> None:
        if len(self.samples) < 6:
            self.samples.append(s)
