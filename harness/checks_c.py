"""checks_c.py -- plans for C11..C15."""
from __future__ import annotations

import hashlib
import io
import itertools
import json
import os
import subprocess
import sys
import threading

import core
import fam_encode
import fam_parse
import fam_rdflib
import gen as genmod
import refenc
from checks import REPLAYERS, core_stmt_tok, plan, rdflib_case
from core import Cfg, frame_tok, gs, gser, hx, make_stream
from pyjelly import jelly
from pyjelly.parse import ioutils as pio


# ------------------------------------------------------------------ C11
class PullProbe:
    """Input generator that records, at every next(), how many rows the consumer has been handed."""

    def __init__(self, items, log, handed) -> None:
        self.it, self.log, self.handed = iter(items), log, handed

    def __iter__(self):
        return self

    def __next__(self):
        self.log.append(("P", self.handed[0]))
        return next(self.it)


def total_rows(cfg, stmts, ig="g") -> int:
    """Rows a serializer emits for this input in total (fresh stream)."""
    stream = make_stream(cfg)
    n = 0
    if ig == "g":
        frames = gser.stream_frames(stream, (s for s in stmts))
    else:
        from pyjelly.integrations.rdflib import serialize as rser

        frames = rser.stream_frames(stream, (s for s in fam_rdflib.gen_tuples(stmts)))
    for fr in frames:
        n += len(fr.rows)
    return n + len(stream.flow)


class Stall(Exception):
    pass


class StallingSource(io.RawIOBase):
    """Delivers data[:limit] (in chunks of at most `chunk`), then raises when asked for more."""

    def __init__(self, data: bytes, limit: int, chunk: int) -> None:
        self.data, self.limit, self.chunk, self.pos = data, limit, chunk, 0

    def readable(self) -> bool:
        return True

    def seekable(self) -> bool:
        return False

    def readinto(self, buf) -> int:
        if self.pos >= self.limit:
            raise Stall
        n = min(len(buf), self.chunk, self.limit - self.pos)
        buf[:n] = self.data[self.pos : self.pos + n]
        self.pos += n
        return n


@plan(
    "C11",
    "EN with an instrumented input iterator (records at every next() how many rows the consumer has been handed; the true number of rows "
    "produced by the first k statements comes from separate prefix runs) for flat delimited TripleStream/QuadStream/GraphStream of both "
    "integrations, frame sizes 1..7: from the second pull on fewer than frame_size rows may be pending; pull/emit order compared with the "
    "model. PA over a raw source that delivers frames 1..j (chunked 5 bytes or unbounded) and raises when asked for more: all statements of "
    "frames 1..j must have been yielded first, for every j. Non-trivial = a run with >= 2 frames; distinct by (configuration, input).",
    ["whether a real source blocks is a runtime fact; the check observes the parser's demand on a double that raises at the boundary"],
)
def c11(ctx):
    out = []
    r = ctx.rng
    # ---- write side
    for _ in range(ctx.n(150, 2500)):
        ig = r.choice("gr")
        cls = r.choice("TQG")
        ar = 3 if cls == "T" else 4
        g = genmod.Gen(r, nprefix=r.randint(1, 4), nname=r.randint(2, 6), ndt=2)
        stmts = fam_parse.rdf11_statements(r, g, r.choice([3, 5, 9, 14]), ar) if ig == "r" else g.statements(r.choice([3, 5, 9, 14]), ar)
        need = genmod.table_need(stmts)
        cfg = genmod.random_cfg(r, cls, need)
        if cfg.maxd == 0:
            cfg.maxd = max(1, need[2])
        cfg.ig = ig
        cfg.frame_size = r.choice([1, 2, 3, 5, 7])
        cfg.delim = True
        cfg.logical = r.choice([0, {"T": 1, "Q": 2, "G": 2}[cls]])
        if ig == "r":
            cfg.gen = cfg.star = False
        bound = cfg.frame_size
        if r.random() < 0.35:
            # the frame size asked for through an explicit (empty) flow object, while options.frame_size says
            # something else: the flow is what counts
            fk = r.choice(["B", {"T": "FT", "Q": "FQ", "G": "FQ"}[cls]])
            bound = r.choice([1, 2, 3, 5])
            cfg.flow = (fk, {"T": 1, "Q": 2, "G": 2}[cls], bound)
            cfg.frame_size = r.choice([250, 7, bound])
            ctx.report.count("C11/write/explicit-flow")
        try:
            stream = make_stream(cfg)
        except Exception:  # noqa: BLE001
            continue
        log: list = []
        handed = [0]
        items = stmts if ig == "g" else fam_rdflib.gen_tuples(stmts)
        probe = PullProbe(items, log, handed)
        raised = False
        try:
            frames = gser.stream_frames(stream, probe) if ig == "g" else __import__("pyjelly.integrations.rdflib.serialize", fromlist=["x"]).stream_frames(stream, probe)
            for fr in frames:
                handed[0] += len(fr.rows)
                log.append(("F", frame_tok(fr)))
        except Exception:  # noqa: BLE001
            raised = True
        ctx.report.evaluations += 1
        nframes = sum(1 for k, _ in log if k == "F")
        if nframes >= 2:
            ctx.report.nontrivial.add((cfg.tok(), tuple(core_stmt_tok(s) for s in stmts)))
        ctx.report.count(f"C11/write/{ig}/{cls}/fs={bound}")
        # correspondence: pull/emit order
        impl_trace = " ".join("P" if k == "P" else v for k, v in log) + (" R" if raised else "") + " " + core.stream_end_tok(stream)
        if ig == "g":
            model = ctx.driver.ask(core.en_cmd(cfg, stmts, [], False))
        else:
            model = ctx.driver.ask(f"ER {cfg.tok()} {fam_rdflib.observe(lambda: items)}")
        same = impl_trace == model
        # the property on the implementation
        pv = None
        sig = {}
        if not raised:
            pulls = [h for k, h in log if k == "P"]
            for i in range(2, len(pulls) + 1):  # i-th pull (1-based), i >= 2: statements 1..i-1 consumed
                produced = total_rows(cfg, stmts[: i - 1], ig) if i - 1 <= len(stmts) else None
                if produced is None:
                    continue
                pending = produced - pulls[i - 1]
                if pending >= bound:
                    pv = f"at pull {i} {pending} rows are pending (frame_size {bound}): frames were not handed over before more input was consumed"
                    if cls == "G":
                        sig = {"kind": "graphs-path-buffers"}
                    break
        if pv or not same:
            out.append({"family": "EN", "entry": "stream_frames", "cfg": cfg.as_json(), "stmts": [core_stmt_tok(s) for s in stmts], "ns": [], "sink": False,
                        "impl": impl_trace[:1500], "model": model[:1500], "corresponds": same,
                        "property_violation": None if not pv else {"what": pv}, "signature": sig})
    # ---- read side
    for si in range(ctx.n(25, 300)):
        rdf11 = r.random() < 0.5
        st = fam_parse.ref_stream(ctx, rdf11=rdf11)
        if st is None:
            continue
        enc = st["enc"]
        payloads = [f.SerializeToString(deterministic=True) for f in st["frames"]]
        data = fam_encode.delimited(payloads)
        per_frame = refenc.frame_events(enc.events, enc.event_rows, enc.frame_rows)
        bounds, pos = [], 0
        for p in payloads:
            pos += len(fam_encode.varint(len(p))) + len(p)
            bounds.append(pos)
        first_nonempty = next(i for i, f in enumerate(st["frames"]) if len(f.rows))
        igs = ("g", "r") if rdf11 else ("g",)
        for j in range(first_nonempty, len(bounds)):
            want = [e for fe in per_frame[: j + 1] for e in fe]
            for ig in igs:
                for chunk in (5, 10 ** 6):
                    ctx.report.evaluations += 1
                    src = StallingSource(data, bounds[j], chunk)
                    got, ended = [], None
                    try:
                        if ig == "g":
                            for item in core.gparse.parse_jelly_flat(src):
                                got.append(core.event_tok(item))
                        else:
                            from pyjelly.integrations.rdflib import parse as rparse

                            for item in rparse.parse_jelly_flat(src):
                                got.append(fam_parse.rdflib_event_tok(item))
                        ended = "E"
                    except Stall:
                        ended = "stall"
                    except Exception as e:  # noqa: BLE001
                        ended = "R:" + type(e).__name__
                    if j == len(bounds) - 1 and ended == "stall":
                        pass  # at the very end the parser must ask for more to see EOF
                    if got != want:
                        out.append({"family": "PA", "ig": ig, "mode": "flat", "bytes": hx(data), "corresponds": True, "impl": [ended, len(got)], "model": ["", len(want)],
                                    "stall_after_frame": j, "chunk": chunk,
                                    "property_violation": {"what": f"with frames 1..{j + 1} delivered ({chunk}-byte reads) the parser yielded {len(got)} of their {len(want)} items before needing bytes of the next frame ({ended})"},
                                    "signature": {}})
        if si < 1:
            ctx.report.sample({"family": "PA/stall", "frames": len(bounds), "bytes": len(data)})
    return out


# ------------------------------------------------------------------ C12
def workload(r, k: int):
    """(cfg, stmts) for workload k; deterministic from the rng."""
    cls = r.choice("TQG")
    ar = 3 if cls == "T" else 4
    if k % 2 == 1:
        # churn: statements with several distinct keys per table (quoted triples), tables at their smallest,
        # so that slots are evicted all the time -- any dependence of the eviction order on set / dict
        # iteration order (PYTHONHASHSEED) or on other streams shows in the bytes
        g = genmod.Gen(r, nprefix=r.randint(4, 7), nname=r.randint(9, 14), ndt=2)
        stmts = g.statements(r.choice([12, 25]), ar, prepeat=0.15)
        need = genmod.table_need(stmts)
        cfg = genmod.random_cfg(r, cls, need)
        cfg.maxn = max(8, need[0])
        cfg.maxp = max(1, need[1])
        cfg.maxd = max(1, need[2])
        cfg.delim = True
        cfg.frame_size = r.choice([1, 2, 3, 250])
        return cfg, stmts
    g = genmod.Gen(r, nprefix=r.randint(1, 4), nname=r.randint(2, 6), ndt=2)
    stmts = g.statements(r.choice([2, 4, 7, 12]), ar)
    need = genmod.table_need(stmts)
    cfg = genmod.random_cfg(r, cls, need)
    if cfg.maxd == 0:
        cfg.maxd = max(1, need[2])
    cfg.delim = True
    cfg.frame_size = r.choice([1, 2, 3, 250])
    return cfg, stmts


def run_alone(cfg, stmts) -> bytes:
    try:
        stream = make_stream(cfg)
        return fam_encode.delimited([fr.SerializeToString(deterministic=True) for fr in gser.stream_frames(stream, (s for s in stmts))])
    except Exception as e:  # noqa: BLE001
        return b"RAISED " + type(e).__name__.encode()



def _stream_with(cfg, opts):
    """A real stream over a GIVEN options object (so that several streams can share one)."""
    if cfg.ig == "g":
        enc = gser.GenericSinkTermEncoder(lookup_preset=opts.lookup_preset)
    else:
        from pyjelly.integrations.rdflib.serialize import RDFLibTermEncoder

        enc = RDFLibTermEncoder(lookup_preset=opts.lookup_preset)
    return core.STREAM_CLASSES[cfg.cls](encoder=enc, options=opts)


def _drain(gen_, limit=None):
    acc = []
    try:
        for i, fr in enumerate(gen_):
            acc.append(fr.SerializeToString(deterministic=True))
            if limit is not None and i + 1 >= limit:
                break
    except Exception as e:  # noqa: BLE001
        acc.append(b"RAISED " + type(e).__name__.encode())
    return acc


def rdflib_parser_interleavings(ctx):
    """Two or three rdflib parsers over different valid streams (typed literals in non-canonical lexical
    forms included), advanced item by item in random orders -- overlapping lifetimes that are NOT nested:
    one starts, another starts, the first ends while the other is still half-way.  Every parser must yield
    what it yields alone.  Afterwards a fresh parse of the first stream must still give the same."""
    from pyjelly.integrations.rdflib import parse as rparse

    out = []
    r = ctx.rng
    for it in range(ctx.n(30, 400)):
        streams = []
        while len(streams) < r.choice([2, 2, 3]):
            st = fam_parse.ref_stream(ctx, rdf11=True, noncanon_p=0.7)
            if st is None or len(st["events"]) < 4:
                continue
            streams.append(refenc.frames_bytes(st["frames"], True))
        alone = [fam_parse.impl_flat("r", b) for b in streams]
        gens = [rparse.parse_jelly_flat(io.BytesIO(b)) for b in streams]
        accs = [[] for _ in streams]
        ends = ["E"] * len(streams)
        live = list(range(len(streams)))
        started = []
        order = []
        while live:
            # start them one after another, then let the one started FIRST finish first
            if len(started) < len(streams) and r.random() < 0.7:
                i = len(started)
                started.append(i)
            else:
                i = r.choice(live) if r.random() < 0.5 else live[0]
            if i not in live:
                continue
            order.append(i)
            try:
                accs[i].append(fam_parse.rdflib_event_tok(next(gens[i])))
            except StopIteration:
                live.remove(i)
            except Exception:  # noqa: BLE001
                ends[i] = "R"
                live.remove(i)
        ctx.report.evaluations += 1
        ctx.report.count("C12/rdflib-parsers-interleaved")
        if len(set(order[:8])) > 1:
            ctx.report.nontrivial.add(("rdflib-interleaved", it, tuple(order[:30])))
        again = fam_parse.impl_flat("r", streams[0])
        for i, a in enumerate(alone):
            if (ends[i], accs[i]) != (a[0], a[1]):
                k = next((j for j, (x, y) in enumerate(zip(accs[i], a[1])) if x != y), min(len(accs[i]), len(a[1])))
                out.append({"family": "WL", "mode": "rdflib-parsers-interleaved", "workload": i, "corresponds": True, "impl": accs[i][k:k + 2], "model": a[1][k:k + 2],
                            "streams": [hx(b) for b in streams], "order": order[:300],
                            "property_violation": {"what": f"rdflib parser {i} yields another item {k} when interleaved with {len(streams) - 1} other parser(s) than alone"}, "signature": {}})
                break
        else:
            if (again[0], again[1]) != (alone[0][0], alone[0][1]):
                out.append({"family": "WL", "mode": "rdflib-parse-after-interleaving", "corresponds": True, "impl": "", "model": "", "streams": [hx(b) for b in streams],
                            "order": order[:300], "property_violation": {"what": "the same stream parses differently after other parsers overlapped in the process"}, "signature": {}})
    return out


def shared_options_cases(ctx, only=None, label="C12"):
    out = []
    r = ctx.rng
    import rdflib as _rdflib

    import fam_rdflib
    def viol(mode, what, extra):
        d = {"family": "WL", "mode": mode, "corresponds": True, "impl": "", "model": "", "property_violation": {"what": what}, "signature": {}}
        d.update(extra)
        return d

    for it in range(ctx.n(25, 300)):
        if only and it >= ctx.n(25, 300) // 2:
            break
        # ---- (a) generic streams sharing one SerializerOptions object
        cfg, stmts = workload(r, it)
        cfg.flow = None
        cfg.frame_size = r.choice([3, 5, 250])
        alone = run_alone(cfg, stmts)
        if alone.startswith(b"RAISED"):
            continue
        opts = core.make_options(cfg)
        hist = only or r.choice(["finished", "abandoned", "failed", "interleaved", "other-class", "other-class"])
        other = stmts[: max(1, len(stmts) // 2)]
        if hist == "other-class":
            # the earlier stream is of another physical family (a triples stream, then a quads / graphs stream
            # over the same options object, or the other way round); whatever becomes of it -- it may even be
            # refused when the options name a logical type of the other family -- the later stream writes what
            # it writes alone, and the caller's options object still says what the caller put there
            import copy as _copy
            import dataclasses as _dc

            if r.random() < 0.7:
                # the logical type left to the stream class (each family resolves it to its own default)
                cfg.logical = 0
                alone = run_alone(cfg, stmts)
                opts = core.make_options(cfg)
            cfg1 = _copy.copy(cfg)
            cfg1.cls = r.choice([c for c in "TQG" if c != cfg.cls])
            if (cfg1.cls == "T") != (cfg.cls == "T"):
                conv = [gs.Triple(*list(x)[:3]) for x in other] if cfg1.cls == "T" else [gs.Quad(*list(x)[:3], gs.DefaultGraph) for x in other]
            else:
                conv = other
            before = _dc.asdict(opts) if _dc.is_dataclass(opts) else None
            try:
                _drain(gser.stream_frames(_stream_with(cfg1, opts), (x for x in conv)))
            except Exception:  # noqa: BLE001
                pass
            after = _dc.asdict(opts) if _dc.is_dataclass(opts) else None
            try:
                got = fam_encode.delimited(_drain(gser.stream_frames(_stream_with(cfg, opts), (x for x in stmts))))
            except Exception as e:  # noqa: BLE001
                got = b"RAISED " + type(e).__name__.encode()
            ctx.report.evaluations += 1
            ctx.report.nontrivial.add(("shared-options", it, hist))
            ctx.report.count(label + "/shared-options/" + hist + f"/{cfg1.cls}-then-{cfg.cls}")
            if before != after:
                ch = sorted(k for k in (before or {}) if before[k] != after[k])
                out.append(viol("shared-options-rewritten", f"building and running a {cfg1.cls} stream rewrote the caller's SerializerOptions ({', '.join(ch)})",
                                {"cfg": cfg.as_json(), "stmts": [core_stmt_tok(x) for x in stmts], "history": hist, "first_class": cfg1.cls}))
            elif got != alone:
                out.append(viol("shared-options-" + hist, f"a {cfg.cls} stream built from an options object that an earlier {cfg1.cls} stream also used writes {len(got)} bytes, alone it writes {len(alone)}",
                                {"cfg": cfg.as_json(), "stmts": [core_stmt_tok(x) for x in stmts], "history": hist, "first_class": cfg1.cls}))
            continue
        if hist == "interleaved":
            s1, s2 = _stream_with(cfg, opts), _stream_with(cfg, opts)
            g1, g2 = gser.stream_frames(s1, (x for x in stmts)), gser.stream_frames(s2, (x for x in other))
            acc1, live = [], [1, 2]
            while live:
                w = r.choice(live)
                try:
                    fr = next(g1 if w == 1 else g2)
                    if w == 1:
                        acc1.append(fr.SerializeToString(deterministic=True))
                except StopIteration:
                    live.remove(w)
                except Exception as e:  # noqa: BLE001
                    if w == 1:
                        acc1.append(b"RAISED " + type(e).__name__.encode())
                    live.remove(w)
            got = fam_encode.delimited(acc1)
        else:
            first = _stream_with(cfg, opts)
            if hist == "finished":
                _drain(gser.stream_frames(first, (x for x in other)))
            elif hist == "abandoned":
                _drain(gser.stream_frames(first, (x for x in other)), limit=1)
            else:
                bad = [tuple(list(other[0])[:1])]  # a statement with too few terms: rejected
                _drain(gser.stream_frames(first, (x for x in list(other[:-1]) + bad)))
            got = fam_encode.delimited(_drain(gser.stream_frames(_stream_with(cfg, opts), (x for x in stmts))))
        ctx.report.evaluations += 1
        ctx.report.nontrivial.add(("shared-options", it, hist))
        ctx.report.count("C12/shared-options/" + hist)
        if got != alone:
            out.append(viol("shared-options-" + hist, f"a stream built from an options object that an earlier ({hist}) stream also used writes {len(got)} bytes, alone it writes {len(alone)}",
                            {"cfg": cfg.as_json(), "stmts": [core_stmt_tok(x) for x in stmts], "history": hist}))
        # ---- (b) the integrations' default options (options=None)
        ar = r.choice([3, 4])
        g = genmod.Gen(r, nprefix=2, nname=4, ndt=2)
        st2 = fam_parse.rdf11_statements(r, g, r.choice([3, 6, 9]), ar)
        d = fam_rdflib.build(st2, [], ar == 4)
        try:
            ref = d.serialize(encoding="jelly", format="jelly")
        except Exception as e:  # noqa: BLE001
            ref = b"RAISED " + type(e).__name__.encode()
        # history: a default-options serialization that fails half-way (an unsupported term)
        bad = fam_rdflib.build(st2[:2], [], ar == 4)
        tgt = bad.get_context(_rdflib.URIRef("http://h.example/g")) if ar == 4 else bad
        tgt.add((_rdflib.URIRef("http://h.example/s"), _rdflib.URIRef("http://h.example/p"), _rdflib.Variable("v")))
        try:
            bad.serialize(encoding="jelly", format="jelly")
        except Exception:  # noqa: BLE001
            pass
        try:
            again = d.serialize(encoding="jelly", format="jelly")
        except Exception as e:  # noqa: BLE001
            again = b"RAISED " + type(e).__name__.encode()
        ctx.report.evaluations += 1
        ctx.report.count("C12/default-options/after-failed")
        if again != ref:
            out.append(viol("default-options-after-failed", f"Graph.serialize(format='jelly') with default options writes {len(again)} bytes after another default-options serialization failed, {len(ref)} bytes before it",
                            {"stmts": [core_stmt_tok(x) for x in st2], "dataset": ar == 4}))
        # generic default options, after a failed one
        def gdefault(sts):
            return _drain(gser.flat_stream_to_frames(x for x in sts))

        gref = gdefault(stmts)
        gdefault(list(other[:-1]) + [tuple(list(other[0])[:1])])
        gagain = gdefault(stmts)
        ctx.report.evaluations += 1
        if gagain != gref:
            out.append(viol("generic-default-options-after-failed", "generic flat_stream_to_frames with default options writes other bytes after another default-options run failed",
                            {"stmts": [core_stmt_tok(x) for x in stmts]}))
        # two threads with default options
        if it % 5 == 0:
            d2 = fam_rdflib.build(fam_parse.rdf11_statements(r, g, 8, ar), [], ar == 4)
            try:
                ref2 = d2.serialize(encoding="jelly", format="jelly")
            except Exception as e:  # noqa: BLE001
                ref2 = b"RAISED " + type(e).__name__.encode()
            res = {}

            def w(i, dd):
                try:
                    res[i] = dd.serialize(encoding="jelly", format="jelly")
                except Exception as e:  # noqa: BLE001
                    res[i] = b"RAISED " + type(e).__name__.encode()

            old = sys.getswitchinterval()
            sys.setswitchinterval(1e-6)
            try:
                ths = [threading.Thread(target=w, args=(0, d)), threading.Thread(target=w, args=(1, d2))]
                for t in ths:
                    t.start()
                for t in ths:
                    t.join()
            finally:
                sys.setswitchinterval(old)
            ctx.report.evaluations += 1
            ctx.report.count("C12/default-options/threads")
            if res.get(0) != ref or res.get(1) != ref2:
                out.append(viol("default-options-threads", "two threads serializing with default options write other bytes than each alone",
                                {"stmts": [core_stmt_tok(x) for x in st2], "dataset": ar == 4}))
    return out


def flip_tags(stmts: list) -> list:
    """The same statements with the case of every language tag swapped: the same RDF data, other spelling."""
    def f(t):
        return gs.Literal(t._lex, langtag=t._langtag.swapcase()) if isinstance(t, gs.Literal) and t._langtag else t
    return [type(st)(*[f(t) for t in st]) for st in stmts]


def tagflip_outcome(cfg, stmts_a: list, stmts_b: list, dataset: bool):
    """Write data A through the rdflib integration, then data B (A's statements under the other spelling of every language tag) in
    the same process; the language tags B's bytes carry, read back by the GENERIC reader, against the ones B's literals have."""
    import fam_rdflib

    opts = core.make_options(cfg)
    fam_rdflib.build(stmts_a, [], dataset).serialize(encoding="jelly", format="jelly", options=core.make_options(cfg))
    data = fam_rdflib.build(stmts_b, [], dataset).serialize(encoding="jelly", format="jelly", options=opts)
    got = sorted({(t._lex, t._langtag) for st in core.gparse.parse_jelly_flat(io.BytesIO(data)) for t in st if isinstance(t, gs.Literal) and t._langtag})
    want = sorted({(t._lex, t._langtag) for st in stmts_b for t in st if isinstance(t, gs.Literal) and t._langtag})
    return got, want


def tagflip_history(ctx, n: int) -> list:
    """C12, rdflib writers: what an EARLIER stream saw of a literal (its language tag under another spelling -- one term for rdflib's ==)
    must not show in what a later stream writes."""
    out = []
    r = ctx.rng
    made = tries = 0
    while made < n and tries < 8 * n:
        tries += 1
        dataset = r.random() < 0.5
        ar = 4 if dataset else 3
        g = genmod.Gen(r, nprefix=r.randint(1, 3), nname=r.randint(2, 5), ndt=1)
        stmts = fam_parse.rdf11_statements(r, g, r.choice([2, 4, 8]), ar)
        if not any(isinstance(t, gs.Literal) and t._langtag for st in stmts for t in st):
            continue
        made += 1
        cfg = Cfg(cls="Q" if dataset else "T", ig="r", logical=2 if dataset else 1, delim=True, maxn=4000, maxp=150, maxd=32, frame_size=r.choice([1, 250]), gen=False, star=False)
        ctx.report.evaluations += 1
        ctx.report.count("C12/rdflib: same literals under the other spelling of the language tag, in a later stream")
        ctx.report.nontrivial.add(("tagflip", tuple(core_stmt_tok(x) for x in stmts)))
        try:
            got, want = tagflip_outcome(cfg, stmts, flip_tags(stmts), dataset)
        except Exception as e:  # noqa: BLE001
            got, want = ("raised", type(e).__name__), None
        if got != want:
            out.append({"family": "WLT", "cfg": cfg.as_json(), "stmts": [core_stmt_tok(x) for x in stmts], "dataset": dataset, "corresponds": True,
                        "impl": str(got)[:300], "model": str(want)[:300], "signature": {},
                        "property_violation": {"what": f"an rdflib stream written after another one that held the same literals under the other spelling of the language tag carries {str(got)[:120]}, its data says {str(want)[:120]}"}})
    return out


def replay_wlt(ctx, body):
    from checks import parse_stmt_tok

    cfg = Cfg(**{k: (tuple(v) if k == "flow" and v is not None else v) for k, v in body["cfg"].items()})
    stmts = [parse_stmt_tok(t) for t in body["stmts"]]
    got, want = tagflip_outcome(cfg, stmts, flip_tags(stmts), body["dataset"])
    print("written :", got)
    print("data    :", want)
    return body["property_violation"]["what"] if got != want else None


REPLAYERS["WLT"] = replay_wlt


@plan(
    "C12",
    "WL: sets of 2-4 independent workloads (generic serializers and parsers): each alone, interleaved generator-step by generator-step under "
    "random (and, for 2 workloads up to 8 steps, all) interleavings, in threads with switch interval 1e-6, and in subprocesses under different "
    "PYTHONHASHSEED values; every workload's bytes/items must equal what it gives alone and the model's bytes. Non-trivial = an interleaving "
    "that actually alternates; distinct by (workloads, interleaving).",
    ["thread schedules and hash seeds are sampled; the theorem is about the model's state partition (no shared state)"],
)
def c12(ctx):
    out = []
    r = ctx.rng
    for wi in range(ctx.n(40, 600)):
        k = r.randint(2, 4)
        wls = [workload(r, i) for i in range(k)]
        # history in this process: the same statements written under other table sizes first (prefix table
        # off <-> on, roomy tables) -- whatever a stream remembers about a term must not outlive the stream
        import copy as _copy

        for c, s in wls:
            twin = _copy.copy(c)
            twin.maxp = 0 if c.maxp else 150
            twin.maxn, twin.maxd = 4000, 32
            run_alone(twin, s)
        ctx.report.count("C12/history: same statements under other table sizes first")
        alone = [run_alone(c, s) for c, s in wls]
        # model bytes
        for (c, s), a in zip(wls, alone):
            m = ctx.driver.ask(core.en_cmd(c, s, [], False))
            mb = fam_encode.delimited(core.trace_frames(m))
            ctx.report.evaluations += 1
            if mb != a:
                # the model is a pure function of (options, statements); is the implementation's output
                # in this process, after the streams that ran before, what a fresh process writes?
                pv = None
                try:
                    pr = subprocess.run([sys.executable, os.path.join(os.path.dirname(__file__), "wl_worker.py"), "--single"],
                                        input=json.dumps({"cfg": c.as_json(), "stmts": [core_stmt_tok(x) for x in s]}), capture_output=True, text=True,
                                        env=dict(os.environ, PYTHONPATH=core.REPO, PYTHONHASHSEED="0"), timeout=120)
                    fresh = bytes.fromhex(pr.stdout.strip())
                    if fresh != a:
                        pv = {"what": f"the same statements and options give {len(a)} bytes after other streams ran in the process but {len(fresh)} bytes in a fresh process"}
                except Exception:  # noqa: BLE001
                    pass
                out.append({"family": "EN", "entry": "stream_frames", "cfg": c.as_json(), "stmts": [core_stmt_tok(x) for x in s], "ns": [], "sink": False,
                            "impl": hx(a)[:300], "model": hx(mb)[:300], "corresponds": False, "property_violation": pv, "signature": {},
                            "history": "run after the workloads generated earlier by the same seed in one process"})
        # prior history: create and partly use unrelated streams first
        try:
            junk = make_stream(wls[0][0])
            for _ in gser.stream_frames(junk, (s for s in wls[0][1][:2])):
                pass
        except Exception:  # noqa: BLE001
            pass
        # interleaved, writers and parsers together
        gens = []
        for (c, s) in wls:
            stream = make_stream(c)
            gens.append(("w", gser.stream_frames(stream, (x for x in s)), []))
        for a in alone:
            gens.append(("p", core.gparse.parse_jelly_flat(io.BytesIO(a)), []))
        order = []
        live = list(range(len(gens)))
        while live:
            i = r.choice(live)
            order.append(i)
            kind, gen_, acc = gens[i]
            try:
                item = next(gen_)
                acc.append(item.SerializeToString(deterministic=True) if kind == "w" else core.event_tok(item))
            except StopIteration:
                live.remove(i)
            except Exception as e:  # noqa: BLE001
                acc.append(b"RAISED " + type(e).__name__.encode() if kind == "w" else "RAISED")
                live.remove(i)
        ctx.report.evaluations += 1
        if len(set(order[:6])) > 1:
            ctx.report.nontrivial.add((wi, tuple(order[:40])))
        for idx, ((c, s), a) in enumerate(zip(wls, alone)):
            got = fam_encode.delimited(gens[idx][2])
            if got != a:
                out.append({"family": "WL", "mode": "interleaved", "workload": idx, "cfgs": [x.as_json() for x, _ in wls], "stmts": [[core_stmt_tok(t) for t in st] for _, st in wls],
                            "order": order[:200], "corresponds": True, "impl": hx(got)[:200], "model": hx(a)[:200],
                            "property_violation": {"what": f"workload {idx} writes other bytes when interleaved with {k - 1} other streams than alone"}, "signature": {}})
            base = fam_encode.impl_parse_flat(a)
            if ("E", [x for x in gens[k + idx][2]]) != (base[0], fam_parse.impl_flat("g", a)[1]):
                out.append({"family": "WL", "mode": "interleaved-parse", "workload": idx, "corresponds": True, "impl": "", "model": "",
                            "property_violation": {"what": f"parser {idx} yields other items when interleaved than alone"}, "signature": {}})
        # threads
        results: dict[int, bytes] = {}

        def worker(i, c, s):
            results[i] = run_alone(c, s)

        old = sys.getswitchinterval()
        sys.setswitchinterval(1e-6)
        try:
            ths = [threading.Thread(target=worker, args=(i, c, s)) for i, (c, s) in enumerate(wls)]
            for t in ths:
                t.start()
            for t in ths:
                t.join()
        finally:
            sys.setswitchinterval(old)
        ctx.report.evaluations += 1
        for i, a in enumerate(alone):
            if results.get(i) != a:
                out.append({"family": "WL", "mode": "threads", "workload": i, "corresponds": True, "impl": "", "model": "",
                            "cfgs": [x.as_json() for x, _ in wls], "stmts": [[core_stmt_tok(t) for t in st] for _, st in wls],
                            "property_violation": {"what": f"workload {i} writes other bytes when run concurrently in threads than alone"}, "signature": {}})
    # one options object (flow left to be inferred) shared by several streams, and the integrations'
    # default options: streams created earlier (finished, abandoned half-way or failed), interleaved
    # or concurrent must not show in a stream's bytes
    out.extend(shared_options_cases(ctx))
    out.extend(rdflib_parser_interleavings(ctx))
    # exhaustive interleavings of two short workloads
    r2 = ctx.rng
    w0, w1 = workload(r2, 0), workload(r2, 1)
    w0 = (w0[0], w0[1][:3])
    w1 = (w1[0], w1[1][:3])
    w0[0].frame_size = w1[0].frame_size = 1
    a0, a1 = run_alone(*w0), run_alone(*w1)
    n_inter = 0
    for mask in itertools.product((0, 1), repeat=8):
        s0, s1 = make_stream(w0[0]), make_stream(w1[0])
        g0, g1 = gser.stream_frames(s0, (x for x in w0[1])), gser.stream_frames(s1, (x for x in w1[1]))
        acc = ([], [])
        done = [False, False]
        for m in list(mask) + [0] * 40 + [1] * 40:
            if done[m]:
                continue
            try:
                acc[m].append(next((g0, g1)[m]).SerializeToString(deterministic=True))
            except StopIteration:
                done[m] = True
        n_inter += 1
        if fam_encode.delimited(acc[0]) != a0 or fam_encode.delimited(acc[1]) != a1:
            out.append({"family": "WL", "mode": "exhaustive-2", "mask": list(mask), "corresponds": True, "impl": "", "model": "",
                        "property_violation": {"what": "two streams stepped alternately write other bytes than alone"}, "signature": {}})
            break
    ctx.report.evaluations += n_inter
    ctx.report.count("C12/exhaustive-interleavings-of-2", n_inter)
    # other processes, other hash seeds
    seeds = [1, 2, 12345] if ctx.quick else [1, 2, 3, 4, 5, 6, 7, 12345]
    script = os.path.join(os.path.dirname(__file__), "wl_worker.py")
    digests = {}
    for hs in ["0"] + [str(s) for s in seeds]:
        env = dict(os.environ, PYTHONHASHSEED=hs, PYTHONPATH=core.REPO)
        try:
            p = subprocess.run([sys.executable, script, str(ctx.seed), str(ctx.n(12, 60))], capture_output=True, text=True, env=env, timeout=1500)
        except subprocess.TimeoutExpired:
            ctx.report.count("C12/hash-seed worker did not finish in 25 minutes (machine load): not compared")
            continue
        digests[hs] = p.stdout.strip() or ("ERR " + p.stderr[-200:])
        ctx.report.evaluations += 1
    if len(set(digests.values())) != 1 or any(v.startswith("ERR") for v in digests.values()):
        out.append({"family": "WL", "mode": "hash-seeds", "digests": digests, "corresponds": True, "impl": "", "model": "",
                    "property_violation": {"what": f"serialized bytes differ across processes / PYTHONHASHSEED values: {digests}"}, "signature": {}})
    ctx.report.sample({"family": "WL", "hash_seed_digests": digests})
    # the rdflib writers after everything above ran in this process: what a stream writes is the model's pure function of its options and
    # data, whatever literals (the same lexical form under another spelling of the language tag, say) earlier streams have seen
    from checks import rdflib_sweep
    out += rdflib_sweep(ctx, ctx.n(40, 600))
    out += tagflip_history(ctx, ctx.n(15, 200))
    return out


# ------------------------------------------------------------------ C13
@plan(
    "C13",
    "OP: (a) header fidelity: random SerializerOptions (stream classes, all logical types incl. subtypes, presets around 8/4096, flags, "
    "arbitrary Unicode names, delimited or not, explicit flows) written by both integrations and read back with get_options_and_frames, compared "
    "with what was set and with the model's options row; (b) all physical x logical pairs (incl. out-of-enum values) on construction and on "
    "parse against the model and against the specification's table; (c) bounds: names < 8, tables > 4096, version > 2; (d) 8 logical types x "
    "{flat, grouped} parser x strict x 2 integrations. Exhaustive for (b) and (d). Non-trivial = any case with a non-default field; distinct by option tuple.",
)
def c13(ctx):
    out = []
    r = ctx.rng
    # (a) header fidelity
    names = ["", "näme", "日本語", "a" * 200, "\u0000x", "emoji 🎉", " padded ", "\ttab", "trailing\n", "\u00a0nbsp\u3000", "   ", "inner space"]
    for _ in range(ctx.n(300, 5000)):
        cls = r.choice("TQG")
        logical = r.choice([x for x in core.LOGICALS])
        ig = r.choice("gr")
        cfg = Cfg(ig=ig, cls=cls, logical=logical, delim=r.random() < 0.7, nd=r.random() < 0.4, gen=r.random() < 0.5, star=r.random() < 0.5,
                  name=r.choice(names), maxn=r.choice([8, 9, 127, 128, 4000, 4096, 5000]), maxp=r.choice([0, 1, 150, 4096, 4097]),
                  maxd=r.choice([0, 1, 32, 4096, 70000]), frame_size=r.choice([1, 250]))
        if r.random() < 0.3:
            k = r.choice(["M", "B", "FT", "FQ", "G", "D"])
            cfg.flow = (k, r.choice([0, logical]), 3)
        # a protocol version the caller asks for explicitly does not change what is declared
        cfg.ver = r.choice([None, None, 1, 2])
        ar = 3 if cls == "T" else 4
        stmts = [gs.Triple(gs.IRI("http://a/s"), gs.IRI("http://a/p"), gs.Literal("x"))] if ar == 3 else [gs.Quad(gs.IRI("http://a/s"), gs.IRI("http://a/p"), gs.Literal("x"), gs.DefaultGraph)]
        ctx.report.evaluations += 1
        ctx.report.nontrivial.add(cfg.tok())
        if ig == "g":
            case = {"cfg": cfg, "stmts": stmts, "ns": [], "sink": False, "entry": "stream_frames", "oracles": []}
            d = fam_encode.run_case(ctx, case)
            impl = fam_encode.impl_run(cfg, stmts, [], False, "stream_frames", case)
        else:
            case = {"cfg": cfg, "stmts": stmts, "ns": [], "data": "gen", "entry": "stream_frames", "oracles": []}
            d = fam_rdflib.run_rdflib_case(ctx, case)
            impl = None
            try:
                stream = make_stream(cfg)
                from pyjelly.integrations.rdflib import serialize as rser

                frs = [f.SerializeToString(deterministic=True) for f in rser.stream_frames(stream, iter(fam_rdflib.gen_tuples(stmts)))]
                impl = {"raised": False, "bytes": fam_encode.to_bytes(cfg, frs)}
            except Exception:  # noqa: BLE001
                impl = {"raised": True, "bytes": b""}
        if d:
            out.append(d)
        if impl and not impl["raised"] and impl["bytes"]:
            pv = None
            try:
                stream = make_stream(cfg)
                flow_logical = stream.flow.logical_type
            except Exception:  # noqa: BLE001
                flow_logical = None
            readable = cfg.maxp <= 4096 and cfg.maxd <= 4096 and cfg.maxn <= 4096
            try:
                po, frames = pio.get_options_and_frames(io.BytesIO(impl["bytes"]))
                wrote = (stream.physical_type, flow_logical, cfg.maxn, cfg.maxp, cfg.maxd, cfg.name, cfg.gen, cfg.star, 2 if cfg.nd else 1, cfg.delim)
                read = (po.stream_types.physical_type, po.stream_types.logical_type, po.lookup_preset.max_names, po.lookup_preset.max_prefixes,
                        po.lookup_preset.max_datatypes, po.params.stream_name, po.params.generalized_statements, po.params.rdf_star,
                        po.params.version, po.params.delimited)
                want_flow = None
                if cfg.flow is not None:
                    # the flow object as the caller holds it, before any stream has seen it: the logical type it was made with
                    try:
                        want_flow = core.make_options(cfg).flow.logical_type
                    except Exception:  # noqa: BLE001
                        want_flow = None
                if cfg.logical != 0 and flow_logical is not None and cfg.flow is None and flow_logical != cfg.logical:
                    pv = f"the stream was requested with logical type {cfg.logical} but is written (and read) as {flow_logical}"
                elif want_flow is not None and po.stream_types.logical_type != want_flow:
                    pv = f"the caller passed a flow object of logical type {want_flow}; the header of the stream says {po.stream_types.logical_type}"
                elif wrote != read:
                    pv = f"options written {wrote} but the reader is told {read}"
                else:
                    # reading the whole stream: tables > 4096 must be refused
                    try:
                        list(core.gparse.parse_jelly_flat(io.BytesIO(impl["bytes"])))
                        if not readable:
                            pv = "a stream declaring a table larger than 4096 was accepted on read"
                    except Exception:  # noqa: BLE001
                        if readable:
                            pv = "a stream pyjelly wrote with supported options is rejected on read"
            except Exception as e:  # noqa: BLE001
                pv = f"get_options_and_frames raised {type(e).__name__} on a stream pyjelly wrote"
            if pv:
                out.append({"family": "OP", "what": "header", "cfg": cfg.as_json(), "bytes": hx(impl["bytes"]), "corresponds": True, "impl": "", "model": "",
                            "property_violation": {"what": pv}, "signature": {}})
    # (a') the options object the caller holds: one object used for streams of different physical families
    # still says what the caller put there, and each stream's header is the one it would write alone
    out.extend(shared_options_cases(ctx, only="other-class", label="C13"))
    # (b) all pairs
    from pyjelly.options import StreamTypes

    phys_vals = [0, 1, 2, 3, 4, 7]
    log_vals = core.LOGICALS + [5, 10, 11, 12, 15, 113]
    for p, l in itertools.product(phys_vals, log_vals):
        ctx.report.evaluations += 1
        try:
            StreamTypes(physical_type=p, logical_type=l)
            impl_ok = True
        except Exception:  # noqa: BLE001
            impl_ok = False
        # model: type_compat via a options round trip command
        row = jelly.RdfStreamRow(options=jelly.RdfStreamOptions(physical_type=p, logical_type=l, max_name_table_size=8, version=1))
        fr = jelly.RdfStreamFrame(rows=[row])
        data = fr.SerializeToString(deterministic=True)
        pre, mend, mframes = fam_parse.model_parse(ctx, "g", False, False, data)
        e, evs, errn = fam_parse.impl_flat("g", data)
        spec = fam_encode.spec_events(ctx.driver.ask("SP 1 " + hx(data)))
        spec_ok = spec[0] == "valid"
        pv = None
        in_enum = p in (0, 1, 2, 3) and l in core.LOGICALS
        if in_enum and p != 0 and l != 0 and impl_ok != spec_ok:
            pv = f"physical {p} with logical {l}: constructor {'accepts' if impl_ok else 'rejects'}, the specification's table says {'allowed' if spec_ok else 'forbidden'}"
        if in_enum and p in (1, 2, 3) and (e == "E") != spec_ok and l != 0:
            pv = pv or f"physical {p} with logical {l}: the parser {'accepts' if e == 'E' else 'rejects'}, the specification's table says {'allowed' if spec_ok else 'forbidden'}"
        if e != mend or pv:
            out.append({"family": "OP", "what": "pair", "pair": [p, l], "bytes": hx(data), "corresponds": e == mend, "impl": [impl_ok, e, errn], "model": [mend, spec[0], spec[1]],
                        "property_violation": None if not pv else {"what": pv}, "signature": {}})
    # (c) bounds on read
    for maxn, maxp, maxd, ver, ok in [(7, 0, 0, 1, False), (8, 0, 0, 1, True), (0, 0, 0, 1, False), (4096, 4096, 4096, 2, True), (4097, 0, 0, 1, False),
                                      (8, 4097, 0, 1, False), (8, 0, 4097, 1, False), (8, 0, 0, 3, False), (8, 0, 0, 2, True), (8, 0, 0, 10000, False),
                                      (8, 0, 2 ** 32 - 1, 1, False), (2 ** 31, 0, 0, 1, False)]:
        ctx.report.evaluations += 1
        row = jelly.RdfStreamRow(options=jelly.RdfStreamOptions(physical_type=1, max_name_table_size=maxn, max_prefix_table_size=maxp, max_datatype_table_size=maxd, version=ver))
        data = jelly.RdfStreamFrame(rows=[row]).SerializeToString(deterministic=True)
        for ig in "gr":
            e, evs, errn = fam_parse.impl_flat(ig, data)
            pre, mend, mframes = fam_parse.model_parse(ctx, ig, False, False, data)
            pv = None
            if (e == "E") != ok:
                pv = f"options names={maxn} prefixes={maxp} datatypes={maxd} version={ver}: the {ig} parser {'accepts' if e == 'E' else 'rejects'} them"
            if e != mend or pv:
                out.append({"family": "OP", "what": "bounds", "bytes": hx(data), "corresponds": e == mend, "impl": [e, errn], "model": [mend],
                            "property_violation": None if not pv else {"what": pv}, "signature": {}})
    # writer side of the bounds
    from pyjelly.options import LookupPreset

    for n in (0, 7, 8):
        try:
            LookupPreset(max_names=n)
            acc = True
        except Exception:  # noqa: BLE001
            acc = False
        if acc != (n >= 8):
            out.append({"family": "OP", "what": "preset", "corresponds": True, "impl": "", "model": "", "property_violation": {"what": f"LookupPreset(max_names={n}) is {'accepted' if acc else 'rejected'}"}, "signature": {}})
    # tables above the reader's limit on the writer side: the configuration is either refused or what
    # it writes can be read back (C01: a sizing the writer accepts round-trips; C06: a combination that
    # cannot be honoured must raise instead of writing)
    for which, n in itertools.product(("maxn", "maxp", "maxd"), (4096, 4097, 5000, 70000)):
        cfg = Cfg(cls="T", logical=1, delim=True, maxn=128, maxp=8, maxd=8)
        setattr(cfg, which, n)
        stmts = [gs.Triple(gs.IRI("http://a/s"), gs.IRI("http://a/p"), gs.Literal("x", datatype="http://a/dt"))]
        case = {"cfg": cfg, "stmts": stmts, "ns": [], "sink": False, "entry": "flat_file", "oracles": ["roundtrip"]}
        ctx.report.evaluations += 1
        ctx.report.count(f"C13/writer-bound/{which}={n}")
        d = fam_encode.run_case(ctx, case)
        if d:
            out.append(d)
    # (d) strict matrix
    for l, phys in itertools.product(core.LOGICALS, (1, 2, 3)):
        from pyjelly.options import validate_type_compatibility

        try:
            validate_type_compatibility(phys, l)
        except Exception:  # noqa: BLE001
            continue
        rows = [jelly.RdfStreamRow(options=jelly.RdfStreamOptions(physical_type=phys, logical_type=l, max_name_table_size=8, version=1))]
        data = fam_encode.delimited([jelly.RdfStreamFrame(rows=rows).SerializeToString(deterministic=True)])
        for ig, grouped, strict in itertools.product("gr", (False, True), (False, True)):
            ctx.report.evaluations += 1
            if grouped:
                e, sinks = fam_parse.impl_grouped(ig, data, strict)
            else:
                e, evs, errn = fam_parse.impl_flat(ig, data, strict)
            pre, mend, mframes = fam_parse.model_parse(ctx, ig, grouped, strict, data)
            flat_l = l in (1, 2)
            want_ok = True if not strict else (flat_l if not grouped else (l != 0 and not flat_l))
            pv = None
            if (e == "E") != want_ok:
                pv = f"logical type {l}, {'grouped' if grouped else 'flat'} {ig} parser, strict={strict}: {'accepted' if e == 'E' else 'rejected'}"
            if e != mend or pv:
                out.append({"family": "OP", "what": "strict", "bytes": hx(data), "ig": ig, "mode": "grouped" if grouped else "flat", "strict": strict, "corresponds": e == mend,
                            "impl": [e], "model": [mend], "property_violation": None if not pv else {"what": pv}, "signature": {}})
    # without strict the logical type never influences what is parsed
    for _ in range(ctx.n(20, 300)):
        st = fam_parse.ref_stream(ctx, rdf11=True)
        if st is None:
            continue
        enc = st["enc"]
        base = None
        for l in core.LOGICALS:
            from pyjelly.options import validate_type_compatibility

            try:
                validate_type_compatibility(st["phys"], l)
            except Exception:  # noqa: BLE001
                continue
            rows2 = []
            for row in enc.rows:
                if row.HasField("options"):
                    r2 = jelly.RdfStreamRow()
                    r2.CopyFrom(row)
                    r2.options.logical_type = l
                    rows2.append(r2)
                else:
                    rows2.append(row)
            data = refenc.frames_bytes(refenc.cut_frames(rows2, [len(rows2)]), True)
            ctx.report.evaluations += 1
            res = tuple(fam_parse.impl_flat(ig, data)[:2] for ig in "gr")
            if base is None:
                base = res
            elif str(res) != str(base):
                out.append({"family": "OP", "what": "nonstrict", "bytes": hx(data), "corresponds": True, "impl": "", "model": "",
                            "property_violation": {"what": f"without strict checking, logical type {l} changes what is parsed"}, "signature": {}})
    ctx.report.exhaustive = True
    ctx.report.notes.append("exhaustive over the physical x logical pairs listed and over the strict matrix; header fidelity is sampled")
    ctx.report.sample({"family": "OP", "pairs": len(phys_vals) * len(log_vals)})
    return out


# ------------------------------------------------------------------ C14
@plan(
    "C14",
    "EN/ER + PA: random bindings (empty prefix, IRIs with or without '/' or '#', non-ASCII) x statement sequences x both integrations x "
    "TRIPLES/QUADS/GRAPHS x tables small enough that declarations evict; declarations read back through parse_jelly_flat (Prefix events), "
    "sink.namespaces, Graph.namespaces(); re-serialising what was read; the same data with declarations off must give the same statements and "
    "no namespace row. Non-trivial = at least one binding and one statement; distinct by (configuration, bindings, statements).",
    ["rdflib's bind policy (which bindings a Graph reports) is data"],
)
def c14(ctx):
    out = []
    r = ctx.rng
    for i in range(ctx.n(250, 4000)):
        case = fam_encode.gen_generic_case(ctx, None, nd=True)
        case["sink"] = True
        cfg = case["cfg"]
        if not case["ns"]:
            g = genmod.Gen(r)
            case["ns"] = g.namespaces(r.randint(1, 3))
        # namespace IRIs use the prefix / name tables too: make them fit one declaration
        ctx.report.evaluations += 1
        ctx.report.nontrivial.add((cfg.tok(), tuple(case["ns"]), tuple(core_stmt_tok(s) for s in case["stmts"])))
        d = fam_encode.run_case(ctx, case)
        if d:
            out.append(d)
            continue
        impl = fam_encode.impl_run(cfg, case["stmts"], case["ns"], True, "stream_frames", case)
        if impl["raised"]:
            continue
        # through the sink API and back
        pv = None
        try:
            sink = core.gparse.parse_jelly_to_graph(io.BytesIO(impl["bytes"]))
            got = [(k, v._iri) for k, v in sink.namespaces]
            # dict semantics of the sink: later bindings of the same prefix win, order of first binding
            want_d = {}
            for a, b in case["ns"]:
                want_d[a] = b
            if got != list(want_d.items()):
                pv = f"sink.namespaces after parse {got} but {list(want_d.items())} were declared"
            else:
                cfg2 = Cfg(**{**cfg.as_json(), "flow": cfg.flow})
                stream2 = make_stream(cfg2)
                b2 = fam_encode.to_bytes(cfg2, [fr.SerializeToString(deterministic=True) for fr in gser.stream_frames(stream2, sink)])
                end, evs = fam_encode.impl_parse_flat(b2)
                ns2 = [e for e in evs if e.startswith("EP ")]
                if ns2 != [f"EP {hx(a)} {hx(b)}" for a, b in want_d.items()]:
                    pv = "re-serialising what was read does not reproduce the declarations"
        except Exception as e:  # noqa: BLE001
            pv = f"declarations do not survive the sink API: {type(e).__name__}: {e}"
        # declarations off: same statements, no namespace row
        cfg_off = Cfg(**{**cfg.as_json(), "nd": False})
        off = fam_encode.impl_run(cfg_off, case["stmts"], case["ns"], True, "stream_frames", case)
        if not off["raised"]:
            e1, ev1 = fam_encode.impl_parse_flat(impl["bytes"])
            e2, ev2 = fam_encode.impl_parse_flat(off["bytes"])
            if [e for e in ev1 if not e.startswith("EP ")] != ev2 or e1 != e2:
                pv = pv or "enabling namespace declarations changes the statements read back"
            if any(e.startswith("EP ") for e in ev2):
                pv = pv or "a namespace declaration is written although the option is off"
        if pv:
            out.append({"family": "EN", "entry": "stream_frames", "cfg": cfg.as_json(), "stmts": [core_stmt_tok(s) for s in case["stmts"]], "ns": case["ns"], "sink": True,
                        "impl": impl["trace"][:500], "model": "", "corresponds": True, "property_violation": {"what": pv}, "signature": {}})
        if i < 2:
            ctx.report.sample({"family": "EN/namespaces", "ns": case["ns"], "cfg": cfg.as_json()})
    # several sinks through ONE stream (grouped_stream_to_file): every sink's bindings must be written in
    # front of that sink's statements, also the ones an earlier sink has announced already, and a prefix
    # re-bound and bound back must read back in that order
    pool_ns = [("ex", "http://example.org/"), ("ex", "http://example.com/other#"), ("v", "http://example.org/vocab/"), ("", "http://d.example/"), ("w", "urn:w:")]
    for i in range(ctx.n(60, 900)):
        ar = r.choice([3, 4])
        cls = "T" if ar == 3 else "Q"
        g = genmod.Gen(r, nprefix=2, nname=4, ndt=1)
        sinks = []
        for _ in range(r.randint(2, 4)):
            sst = g.statements(r.randint(1, 3), ar, quoted=False)
            sns = [r.choice(pool_ns) for _ in range(r.randint(1, 3))]
            # within one sink a prefix is bound once (dict semantics of the sink)
            seen, uniq = set(), []
            for a, b in sns:
                if a not in seen:
                    seen.add(a)
                    uniq.append((a, b))
            sinks.append((sst, uniq))
        cfg = Cfg(cls=cls, logical=r.choice([{"T": 3, "Q": 4}[cls], {"T": 1, "Q": 2}[cls]]), nd=True, delim=True, maxn=4000, maxp=150, maxd=32,
                  frame_size=r.choice([2, 250]), gen=True, star=True)
        case = {"cfg": cfg, "stmts": [x for sst, _ in sinks for x in sst], "ns": [], "sink": False, "entry": "grouped_file", "sinks": sinks, "oracles": ["roundtrip"]}
        ctx.report.evaluations += 1
        ctx.report.count("C14/grouped-shared-bindings")
        ctx.report.nontrivial.add(("grouped", cfg.tok(), tuple(tuple(b) for _, b in sinks)))
        d = fam_encode.run_case(ctx, case)
        if d:
            out.append(d)
    # rdflib
    import rdflib

    for i in range(ctx.n(150, 2500)):
        case = rdflib_case(ctx, nd=True, entry=r.choice(["stream_frames", "serialize"]))
        if case["data"] == "gen":
            continue
        cfg = case["cfg"]
        if not case["ns"]:
            g = genmod.Gen(r)
            case["ns"] = [(a, b) for a, b in g.namespaces(r.randint(1, 3)) if b]
        # a prefix rdflib binds by default (foaf) is renamed by rdflib's own bind policy on the reader
        case["ns"] = [(a, b) for a, b in case["ns"] if a != "foaf"]
        if (len(case["ns"]) + len(case["stmts"])) % 3 == 0:
            # a namespace rdflib's Dataset binds by default, under a name of the source's own: the declaration must arrive under that name
            k_ = (len(case["stmts"]) + len(cfg.tok())) % 3
            case["ns"] = case["ns"] + [[("dct", "http://purl.org/dc/terms/"), ("sdo", "https://schema.org/"), ("xs", "http://www.w3.org/2001/XMLSchema#")][k_]]
        ctx.report.evaluations += 1
        ctx.report.nontrivial.add((cfg.tok(), tuple(case["ns"]), tuple(core_stmt_tok(s) for s in case["stmts"])))
        d = fam_rdflib.run_rdflib_case(ctx, case)
        if d:
            out.append(d)
            continue
        # read back through Graph.parse
        src = fam_rdflib.build(case["stmts"], case["ns"], case["data"] == "dataset", case.get("empty_graphs", ()))
        try:
            data = src.serialize(encoding="jelly", format="jelly", options=core.make_options(cfg))
        except Exception:  # noqa: BLE001
            continue
        pv = None
        try:
            dst = rdflib.Dataset() if case["data"] == "dataset" else rdflib.Graph(bind_namespaces="none")
            before = {(p, str(n)) for p, n in dst.namespaces()}
            dst.parse(io.BytesIO(data), format="jelly")
            # the parser's graph factory adds rdflib's own default bindings to the store; the property
            # is about the bindings of the source: each must arrive with the same prefix and IRI
            got = {(p, str(n)) for p, n in dst.namespaces()}
            want = [(p, str(n)) for p, n in src.namespaces()]
            missing = [w for w in want if w not in got]
            if missing:
                pv = f"bindings {missing[:3]} of the source are not in Graph.namespaces() after parse"
            end, evs, _ = fam_parse.impl_flat("r", data)
            eps = [e for e in evs if e.startswith("EP ")]
            if eps != [f"EP {hx(p)} {hx(str(n))}" for p, n in src.namespaces()]:
                pv = pv or "Prefix events differ from the bindings of the source (names, IRIs or order)"
        except Exception as e:  # noqa: BLE001
            pv = f"rdflib namespace round trip raised {type(e).__name__}: {e}"
        if pv:
            out.append({"family": "ER", "entry": "serialize", "cfg": cfg.as_json(), "stmts": [core_stmt_tok(s) for s in case["stmts"]], "ns": case["ns"], "data": case["data"],
                        "impl": "", "model": "", "corresponds": True, "property_violation": {"what": pv}, "signature": {}})
    return out


# ------------------------------------------------------------------ C15
@plan(
    "C15",
    "PA: the six parse entry points (flat, grouped concatenated, to_graph x generic, rdflib) on the same valid RDF 1.1 bytes (reference "
    "encoder and pyjelly) must agree with each other, with the stream's denotation and with the model; EN/ER: the two serializers on "
    "corresponding data, same options, same statement order must write byte-identical streams. Non-trivial = more than one statement; "
    "distinct by byte string / by (configuration, statements).",
    ["rdflib term construction and container behaviour are data"],
)
def c15(ctx):
    from checks import ref_sweep

    out = ref_sweep(ctx, ctx.n(250, 5000), igs=("g", "r"), modes=("flat", "grouped", "to_graph"), rdf11=True)
    r = ctx.rng
    from pyjelly.integrations.rdflib import serialize as rser

    for i in range(ctx.n(250, 5000)):
        cls = r.choice("TQG")
        ar = 3 if cls == "T" else 4
        g = genmod.Gen(r, nprefix=r.randint(1, 5), nname=r.randint(2, 8), ndt=r.randint(1, 3))
        stmts = fam_parse.rdf11_statements(r, g, r.choice([1, 3, 6, 12, 25]), ar)
        need = genmod.table_need(stmts)
        cfg = genmod.random_cfg(r, cls, need)
        if cfg.maxd == 0:
            cfg.maxd = max(1, need[2])
        cfg.gen = cfg.star = False
        cfg.delim = r.random() < 0.8
        if not cfg.delim:
            cfg.logical = {"T": 1, "Q": 2, "G": 2}[cls]
        ctx.report.evaluations += 1
        if len(stmts) > 1:
            ctx.report.nontrivial.add((cfg.tok(), tuple(core_stmt_tok(s) for s in stmts)))
        res = {}
        for ig in "gr":
            c2 = Cfg(**{**cfg.as_json(), "ig": ig})
            try:
                stream = make_stream(c2)
                if ig == "g":
                    if cls == "G":
                        data_in = (s for s in stmts)
                    else:
                        data_in = (s for s in stmts)
                    frs = [f.SerializeToString(deterministic=True) for f in gser.stream_frames(stream, data_in)]
                else:
                    tuples = fam_rdflib.gen_tuples(stmts)
                    if cls == "G":
                        # the rdflib GRAPHS path regroups by graph; corresponding generic input: the same grouping
                        frs = None
                    else:
                        frs = [f.SerializeToString(deterministic=True) for f in rser.stream_frames(stream, iter(tuples))]
                res[ig] = frs
            except Exception as e:  # noqa: BLE001
                res[ig] = "ERR"
        if cls == "G":
            # corresponding data for GRAPHS: feed the generic serializer the order rdflib's Dataset yields
            import rdflib

            ds = rdflib.Dataset()
            for q in fam_rdflib.gen_tuples(stmts):
                ds.get_context(q[3]).add((q[0], q[1], q[2]))
            order = []
            for gr in rdflib.Dataset.graphs(ds):
                for (s_, p_, o_) in gr:
                    order.append((s_, p_, o_, gr.identifier))
            ds2 = rdflib.Dataset()
            for q in fam_rdflib.gen_tuples(stmts):
                ds2.get_context(q[3]).add((q[0], q[1], q[2]))
            try:
                rs = make_stream(Cfg(**{**cfg.as_json(), "ig": "r"}))
                res["r"] = [f.SerializeToString(deterministic=True) for f in rser.stream_frames(rs, ds2)]
                gstream = make_stream(Cfg(**{**cfg.as_json(), "ig": "g"}))
                gen_in = [gs.Quad(*[from_rdflib(t) for t in q]) for q in order]
                res["g"] = [f.SerializeToString(deterministic=True) for f in gser.stream_frames(gstream, (s for s in gen_in))]
            except Exception:  # noqa: BLE001
                continue
            # rdflib emits a graph start for empty graphs too (the default graph); only compare when none is empty
            if any(len(gr) == 0 for gr in ds.graphs()):
                continue
        if res.get("g") != res.get("r"):
            out.append({"family": "EN", "entry": "stream_frames", "cfg": cfg.as_json(), "stmts": [core_stmt_tok(s) for s in stmts], "ns": [], "sink": False, "corresponds": True,
                        "impl": str(res.get("g"))[:300], "model": str(res.get("r"))[:300],
                        "property_violation": {"what": "the generic and the rdflib serializer write different bytes for corresponding data and the same options"}, "signature": {}})
    out += c15_grouped(ctx, ctx.n(60, 800))
    # literals of xsd:token / xsd:normalizedString whose lexical form the whiteSpace facet would rewrite: both integrations must hand out the form sent
    out += ref_sweep(ctx, ctx.n(30, 500), igs=("g", "r"), modes=("flat", "grouped", "to_graph"), rdf11=True, facet_p=0.35)
    # one literal under several spellings of its language tag in one stream: the flat parsers hand out the spelling sent, statement by
    # statement (flat only: an rdflib Graph / Dataset keeps ONE of the spellings, they are one term for it)
    out += ref_sweep(ctx, ctx.n(30, 500), igs=("g", "r"), modes=("flat",), rdf11=True, tagcase_p=0.5)
    return out


def c15_grouped_case(k: int, groups: list, ns: list, frame_size: int, nd: bool, maxp: int) -> tuple:
    """grouped_stream_to_frames of both integrations on corresponding groups (triples graphs / sinks): the rdflib graphs are built
    first, the generic sinks get the statements and the bindings in the order rdflib iterates them; same options object kind."""
    import rdflib
    from pyjelly.integrations.rdflib import serialize as rser
    from pyjelly.options import LookupPreset, StreamParameters
    from pyjelly.serialize.streams import SerializerOptions

    def options():
        return SerializerOptions(frame_size=frame_size, logical_type=1, params=StreamParameters(namespace_declarations=nd),
                                 lookup_preset=LookupPreset(max_names=64, max_prefixes=maxp, max_datatypes=8))
    graphs, sinks = [], []
    for sts in groups:
        gph = rdflib.Graph(bind_namespaces="none")
        for a, b in ns:
            gph.bind(a, rdflib.URIRef(b), override=True, replace=True)
        for st in sts:
            gph.add(tuple(fam_rdflib.to_rdflib(t) for t in st[:3]))
        graphs.append(gph)
        sk = gs.GenericStatementSink()
        for p_, n_ in gph.namespaces():
            sk.bind(p_, gs.IRI(str(n_)))
        for tr in gph:
            sk.add(gs.Triple(*[from_rdflib(t) for t in tr]))
        sinks.append(sk)
    res = {}
    for ig, fn, data in (("g", gser.grouped_stream_to_frames, sinks), ("r", rser.grouped_stream_to_frames, graphs)):
        try:
            res[ig] = [f.SerializeToString(deterministic=True) for f in fn((x for x in data), options())]
        except Exception as e:  # noqa: BLE001
            res[ig] = "ERR " + type(e).__name__
    return res["g"], res["r"]


def c15_grouped(ctx, n: int) -> list:
    out = []
    r = ctx.rng
    for _ in range(n):
        g = genmod.Gen(r, nprefix=r.randint(1, 4), nname=r.randint(2, 6), ndt=r.randint(1, 2))
        k = r.choice([1, 2, 3, 4])
        # the first group is not empty: the generic integration guesses the stream class from the first sink, and an empty
        # GenericStatementSink has no kind (is_triples_sink is False), while an empty rdflib Graph is still a Graph -- not corresponding data
        groups = [fam_parse.rdf11_statements(r, g, r.choice([1, 3, 6] if i == 0 else [0, 1, 3, 6]), 3) for i in range(k)]
        nd = r.random() < 0.6
        ns = [(a, b) for a, b in g.namespaces(r.randint(0, 3)) if b] if nd else []
        frame_size, maxp = r.choice([1, 3, 250]), r.choice([0, 4, 32])
        ctx.report.evaluations += 1
        ctx.report.count(f"C15/grouped sinks={k} declarations={'on' if nd else 'off'} bindings={len(ns)}")
        if sum(len(x) for x in groups) > 1:
            ctx.report.nontrivial.add(("grouped", k, nd, frame_size, maxp, tuple(tuple(core_stmt_tok(s) for s in x) for x in groups), tuple(ns)))
        a, b = c15_grouped_case(k, groups, ns, frame_size, nd, maxp)
        if a != b:
            out.append({"family": "EN", "entry": "grouped_both", "cfg": {"frame_size": frame_size, "nd": nd, "maxp": maxp}, "groups": [[core_stmt_tok(s) for s in x] for x in groups],
                        "ns": ns, "corresponds": True, "impl": str(a)[:300], "model": str(b)[:300],
                        "property_violation": {"what": "grouped serialization: the generic and the rdflib serializer write different bytes for corresponding groups and the same options"},
                        "signature": {}})
            if len(out) >= 3:
                break
    return out


def from_rdflib(t):
    import rdflib
    from rdflib.graph import DATASET_DEFAULT_GRAPH_ID

    if t == DATASET_DEFAULT_GRAPH_ID:
        return gs.DefaultGraph
    if isinstance(t, rdflib.URIRef):
        return gs.IRI(str(t))
    if isinstance(t, rdflib.BNode):
        return gs.BlankNode(str(t))
    if isinstance(t, rdflib.Literal):
        return gs.Literal(str(t), t.language, str(t.datatype) if t.datatype is not None else None)
    raise TypeError(t)
