"""checks_d.py -- plans for C16..C20."""
from __future__ import annotations

import io
import json
import os
import subprocess
import sys

import core
import fam_encode
import fam_parse
import fam_rdflib
import gen as genmod
import refenc
from checks import REPLAYERS, core_stmt_tok, en_sweep, plan
from core import Cfg, gs, gser, hx, make_stream
from pyjelly import jelly


# ------------------------------------------------------------------ C16
def copy_rows(rows):
    out = []
    for row in rows:
        r2 = jelly.RdfStreamRow()
        r2.CopyFrom(row)
        out.append(r2)
    return out


def iri_fields(msg):
    """All RdfIri sub-messages of a triple/quad/graph-start row, depth first."""
    out = []
    for name in ("s_iri", "p_iri", "o_iri", "g_iri"):
        if hasattr(msg, name) and msg.HasField(name):
            out.append(getattr(msg, name))
    for name in ("s_triple_term", "p_triple_term", "o_triple_term"):
        if hasattr(msg, name) and msg.HasField(name):
            out += iri_fields(getattr(msg, name))
    return out


def literal_fields(msg):
    out = []
    for name in ("s_literal", "p_literal", "o_literal", "g_literal"):
        if hasattr(msg, name) and msg.HasField(name):
            out.append(getattr(msg, name))
    for name in ("s_triple_term", "p_triple_term", "o_triple_term"):
        if hasattr(msg, name) and msg.HasField(name):
            out += literal_fields(getattr(msg, name))
    return out


def quoted_fields(msg):
    out = []
    for name in ("s_triple_term", "p_triple_term", "o_triple_term"):
        if hasattr(msg, name) and msg.HasField(name):
            q = getattr(msg, name)
            out.append(q)
            out += quoted_fields(q)
    return out


def stmt_of(row):
    k = row.WhichOneof("row")
    return getattr(row, k) if k in ("triple", "quad", "graph_start") else None


def inject(r, rows, cfg, kind):
    """Return mutated rows with one violation of class `kind`, or None if not applicable."""
    rows = copy_rows(rows)
    idx_stmt = [i for i, x in enumerate(rows) if x.WhichOneof("row") in ("triple", "quad")]
    if kind == "id_out_of_range_entry":
        cands = [i for i, x in enumerate(rows) if x.WhichOneof("row") in ("name", "prefix", "datatype")]
        if not cands:
            return None
        i = r.choice(cands)
        k = rows[i].WhichOneof("row")
        size = {"name": cfg["maxn"], "prefix": cfg["maxp"], "datatype": cfg["maxd"]}[k]
        getattr(rows[i], k).id = size + r.choice([1, 2, 1000])
        return rows
    if kind == "implicit_id_after_last_slot":
        # an entry given the last slot of its table, then an entry with id 0 (= last + 1 = size + 1)
        k = r.choice(["name", "prefix", "datatype"])
        size = {"name": cfg["maxn"], "prefix": cfg["maxp"], "datatype": cfg["maxd"]}[k]
        if size == 0 or not idx_stmt:
            return None
        cls = {"name": jelly.RdfNameEntry, "prefix": jelly.RdfPrefixEntry, "datatype": jelly.RdfDatatypeEntry}[k]
        pos = r.choice([i + 1 for i in idx_stmt])
        last = jelly.RdfStreamRow(**{k: cls(id=size, value="zz-last")})
        nxt = jelly.RdfStreamRow(**{k: cls(id=0, value="zz-beyond")})
        rows.insert(pos, last)
        if r.random() < 0.5:
            rows.insert(pos + 1, nxt)
        else:
            # the two entries in different places, nothing assigning in between for that table
            later = [i for i in range(pos + 1, len(rows) + 1)]
            j = later[0]
            for i in range(pos + 1, len(rows)):
                if rows[i].WhichOneof("row") == k:
                    break
                j = i + 1
            rows.insert(j, nxt)
        return rows
    if kind in ("id_out_of_range_ref", "unfilled_ref"):
        cands = [(i, f) for i in idx_stmt for f in iri_fields(stmt_of(rows[i]))]
        if not cands:
            return None
        i, f = r.choice(cands)
        if kind == "id_out_of_range_ref":
            if r.random() < 0.5 and cfg["maxp"]:
                f.prefix_id = cfg["maxp"] + r.choice([1, 5])
            else:
                f.name_id = cfg["maxn"] + r.choice([1, 5])
        else:
            if cfg["maxn"] < 64:
                return None
            f.name_id = cfg["maxn"] - r.randint(0, 3)  # a slot the encoder never reached
        return rows
    if kind == "unfilled_gap_ref":
        # an entry given an explicit id that skips slots, then a reference into the gap: below the
        # highest slot assigned so far, but never filled
        which = r.choice(["name", "prefix", "datatype"])
        size = {"name": cfg["maxn"], "prefix": cfg["maxp"], "datatype": cfg["maxd"]}[which]
        fields = iri_fields if which != "datatype" else literal_fields
        cands = [(i, f) for i in idx_stmt for f in fields(stmt_of(rows[i]))]
        if not cands or size < 3:
            return None
        i, f = r.choice(cands)
        la = hw = 0
        for x in rows[:i]:
            if x.WhichOneof("row") == which:
                e = getattr(x, which)
                la = e.id or la + 1
                hw = max(hw, la)
        if hw + 2 > size:
            return None
        high = r.randint(hw + 2, min(size, hw + 6))
        gap = r.randint(hw + 1, high - 1)
        cls = {"name": jelly.RdfNameEntry, "prefix": jelly.RdfPrefixEntry, "datatype": jelly.RdfDatatypeEntry}[which]
        rows.insert(i, jelly.RdfStreamRow(**{which: cls(id=high, value="zz-high")}))
        if which == "name":
            f.name_id = gap
        elif which == "prefix":
            f.prefix_id = gap
        else:
            f.datatype = gap
        return rows
    if kind == "datatype_zero":
        cands = [(i, f) for i in idx_stmt for f in literal_fields(stmt_of(rows[i]))]
        if not cands:
            return None
        i, f = r.choice(cands)
        f.datatype = 0
        return rows
    if kind == "datatype_disabled":
        if cfg["maxd"] != 0:
            return None
        cands = [(i, f) for i in idx_stmt for f in literal_fields(stmt_of(rows[i]))]
        if not cands:
            return None
        i, f = r.choice(cands)
        f.datatype = 1
        return rows
    if kind == "repeated_without_previous":
        if not idx_stmt:
            return None
        i = idx_stmt[0]
        st = stmt_of(rows[i])
        one = r.choice(["subject", "predicate", "object"] + (["graph"] if rows[i].WhichOneof("row") == "quad" else []))
        f = st.WhichOneof(one)
        if not f:
            return None
        st.ClearField(f)
        return rows
    if kind == "repeated_in_quoted":
        cands = [(i, q) for i in idx_stmt for q in quoted_fields(stmt_of(rows[i]))]
        if not cands:
            return None
        i, q = r.choice(cands)
        one = r.choice(["subject", "predicate", "object"])
        f = q.WhichOneof(one)
        if not f:
            return None
        q.ClearField(f)
        return rows
    if kind == "missing_options":
        rest = [x for x in rows if x.WhichOneof("row") != "options"]
        return rest or None
    if kind == "row_kind":
        if not idx_stmt:
            return None
        i = r.choice(idx_stmt)
        row = rows[i]
        if cfg["phys"] == 1:
            q = jelly.RdfQuad()
            q.s_bnode = "b"
            q.p_bnode = "b"
            q.o_bnode = "b"
            q.g_bnode = "b"
            rows.insert(i, jelly.RdfStreamRow(quad=q))
        elif cfg["phys"] == 2:
            choice = r.random()
            if choice < 0.4:
                t = jelly.RdfTriple()
                t.s_bnode = "b"
                t.p_bnode = "b"
                t.o_bnode = "b"
                rows.insert(i, jelly.RdfStreamRow(triple=t))
            elif choice < 0.7:
                g = jelly.RdfGraphStart()
                g.g_bnode = "b"
                rows.insert(i, jelly.RdfStreamRow(graph_start=g))
            else:
                rows.insert(i, jelly.RdfStreamRow(graph_end=jelly.RdfGraphEnd()))
        else:
            q = jelly.RdfQuad()
            q.s_bnode = "b"
            q.p_bnode = "b"
            q.o_bnode = "b"
            q.g_bnode = "b"
            rows.insert(i, jelly.RdfStreamRow(quad=q))
        return rows
    if kind == "triple_outside_graph":
        if cfg["phys"] != 3:
            return None
        t = jelly.RdfTriple()
        t.s_bnode = "b"
        t.p_bnode = "b"
        t.o_bnode = "b"
        # before the first graph start, or right after a graph end
        ends = [i for i, x in enumerate(rows) if x.WhichOneof("row") == "graph_end"]
        if ends and r.random() < 0.5:
            rows.insert(r.choice(ends) + 1, jelly.RdfStreamRow(triple=t))
        else:
            rows.insert(1, jelly.RdfStreamRow(triple=t))
        return rows
    if kind == "unsupported_version":
        for x in rows:
            if x.WhichOneof("row") == "options":
                x.options.version = r.choice([3, 4, 10000])
        return rows
    if kind == "unsupported_type":
        for x in rows:
            if x.WhichOneof("row") == "options":
                x.options.physical_type = r.choice([0, 4, 9])
                x.options.logical_type = 0
        return rows
    return None


@plan(
    "C16",
    "PA: valid streams of the reference encoder with ONE violation of each catalogued class injected at a random position (entry id / "
    "reference beyond the table, unfilled slot, datatype 0, datatype with disabled table, repeated term without previous, repeated term in a "
    "quoted triple, missing options, forbidden row kind, triple outside a graph, unsupported version / type), confirmed Invalid and catalogued by "
    "the extracted Spec referee, which also gives the events before the offending row; parse_jelly_flat of both integrations must raise and may "
    "only have yielded a prefix of those events; outcome compared with the model. Non-trivial = every injected case; distinct by byte string.",
)
def c16(ctx):
    out = []
    r = ctx.rng
    per_kind = ctx.n(30, 400)
    for kind in refenc.VIOLATIONS:
        made = tries = 0
        while made < per_kind and tries < per_kind * 30:
            tries += 1
            want_phys = 3 if kind == "triple_outside_graph" else None
            rdf11 = kind != "repeated_in_quoted" and r.random() < 0.4
            st = fam_parse.ref_stream(ctx, rdf11=rdf11, phys=want_phys)
            if st is None:
                continue
            cfg = st["cfg"]
            rows = inject(r, st["enc"].rows, cfg, kind)
            if rows is None:
                continue
            cuts = []
            left = len(rows)
            while left:
                k = min(left, r.randint(1, 6))
                cuts.append(k)
                left -= k
            frames = refenc.cut_frames(rows, cuts)
            data = refenc.frames_bytes(frames, True)
            status, cls_, before = fam_encode.spec_events(ctx.driver.ask("SB " + hx(data)))
            reply = ctx.driver.ask("SB " + hx(data))
            if status != "invalid" or reply.split(" ")[3] != "1":
                continue  # the mutation happened to stay valid, or is not a catalogued class
            made += 1
            ctx.report.evaluations += 1
            ctx.report.count(f"C16/{kind}/{cls_}")
            ctx.report.nontrivial.add(hx(data))
            igs = ("g", "r") if rdf11 else ("g",)
            for ig in igs:
                e, evs, errn = fam_parse.impl_flat(ig, data)
                pre, mend, mframes = fam_parse.model_parse(ctx, ig, False, False, data)
                mevs = fam_parse.model_flat_events(mframes)
                same = (e, evs) == (mend, mevs)
                pv = None
                nevs = fam_encode.norm_event_toks(evs)
                if e == "E":
                    pv = f"{kind} ({cls_}): the {ig} parser accepted the stream and delivered {len(evs)} items"
                elif nevs != before[: len(nevs)]:
                    pv = f"{kind} ({cls_}): the {ig} parser delivered an item the stream does not denote before raising"
                if pv or not same:
                    out.append({"family": "PA", "ig": ig, "mode": "flat", "bytes": hx(data), "corresponds": same, "impl": [e, errn] + evs[-2:], "model": [mend] + mevs[-2:],
                                "violation": kind, "class": cls_, "property_violation": None if not pv else {"what": pv}, "signature": {}})
        if made < per_kind // 2:
            ctx.report.notes.append(f"C16: only {made} streams for class {kind}")
    ctx.report.sample({"family": "PA/injected", "classes": refenc.VIOLATIONS})
    return out


# ------------------------------------------------------------------ C17
WORKER = os.path.join(os.path.dirname(__file__), "hostile_worker.py")


def hostile_inputs(ctx, n: int) -> list[bytes]:
    r = ctx.rng
    out: list[bytes] = []
    base = []
    for _ in range(12):
        st = fam_parse.ref_stream(ctx)
        if st:
            base.append(refenc.frames_bytes(st["frames"], True))
    vi = fam_encode.varint
    # the shortest inputs first: nothing, one byte, two bytes (also as prefixes of valid streams)
    out += [b"", b"\x00", b"\x0a", b"\x01", b"\xff", b"\x0a\x0a", b"\x00\x00", b"\x05\x0a", b"\x0a\x02"]
    for b in base[:3]:
        out += [b[:1], b[:2], b[:3]]
    # long runs of empty frames (keep-alive style) before the first frame with rows: time and stack depth must
    # stay in proportion to the input
    if base:
        out += [b"\x00" * 40_000 + base[0], b"\x00" * 150_000 + base[-1]]
    for i in range(n):
        k = i % 8
        if k == 0:
            out.append(bytes(r.randint(0, 255) for _ in range(r.randint(0, 60))))
        elif k == 1 and base:
            b = bytearray(r.choice(base))
            for _ in range(r.randint(1, 4)):
                if b:
                    b[r.randrange(len(b))] ^= 1 << r.randint(0, 7)
            out.append(bytes(b))
        elif k == 2 and base:
            a, b = r.choice(base), r.choice(base)
            out.append(a[: r.randint(0, len(a))] + b[r.randint(0, len(b)) :])
        elif k == 3:
            # huge declared table sizes
            o = jelly.RdfStreamOptions(physical_type=r.choice([1, 2, 3]), max_name_table_size=r.choice([2 ** 31 - 1, 2 ** 32 - 1, 10 ** 7, 4097]),
                                       max_prefix_table_size=r.choice([0, 2 ** 32 - 1, 10 ** 8]), max_datatype_table_size=r.choice([0, 2 ** 32 - 1]), version=1)
            fr = jelly.RdfStreamFrame(rows=[jelly.RdfStreamRow(options=o)]).SerializeToString()
            out.append(vi(len(fr)) + fr)
        elif k == 4 and i % 16 == 4:
            # lookup entries / references with ids far beyond the declared (small) table
            o = jelly.RdfStreamOptions(physical_type=1, max_name_table_size=r.choice([8, 16, 4096]), max_prefix_table_size=r.choice([0, 8]),
                                       max_datatype_table_size=r.choice([0, 8]), version=1)
            big = r.choice([4097, 10 ** 6, 10 ** 8, 2 ** 31 - 1, 2 ** 32 - 1])
            which = r.choice(["name", "prefix", "datatype", "ref"])
            rows = [jelly.RdfStreamRow(options=o)]
            if which == "name":
                rows.append(jelly.RdfStreamRow(name=jelly.RdfNameEntry(id=big, value="n")))
            elif which == "prefix":
                rows.append(jelly.RdfStreamRow(prefix=jelly.RdfPrefixEntry(id=big, value="p")))
            elif which == "datatype":
                rows.append(jelly.RdfStreamRow(datatype=jelly.RdfDatatypeEntry(id=big, value="d")))
            rows.append(jelly.RdfStreamRow(name=jelly.RdfNameEntry(id=1, value="x")))
            t = jelly.RdfTriple()
            t.s_iri.name_id = big if which == "ref" else 1
            t.p_iri.name_id = 1
            t.o_bnode = "b"
            rows.append(jelly.RdfStreamRow(triple=t))
            fr = jelly.RdfStreamFrame(rows=rows).SerializeToString()
            out.append(vi(len(fr)) + fr)
        elif k == 4:
            # huge declared frame / field lengths
            out.append(vi(r.choice([2 ** 31, 2 ** 40, 2 ** 63 - 1, 10 ** 9])) + b"\x0a\x02\x48\x08")
        elif k == 5:
            # deep nesting of quoted triples
            depth = r.choice([50, 200, 800])
            t = jelly.RdfTriple()
            cur = t
            for _ in range(depth):
                cur.s_bnode = "a"
                cur.p_bnode = "b"
                cur = cur.o_triple_term
            cur.s_bnode = cur.p_bnode = cur.o_bnode = "z"
            o = jelly.RdfStreamOptions(physical_type=1, max_name_table_size=8, version=1, rdf_star=True)
            try:
                fr = jelly.RdfStreamFrame(rows=[jelly.RdfStreamRow(options=o), jelly.RdfStreamRow(triple=t)]).SerializeToString()
            except Exception:  # noqa: BLE001
                fr = b""
            out.append(vi(len(fr)) + fr)
        elif k == 6 and base:
            # options in odd places / repeated with other values
            b = r.choice(base)
            o = jelly.RdfStreamOptions(physical_type=r.choice([1, 2, 3]), max_name_table_size=r.choice([8, 4096, 5000]), version=r.choice([1, 2, 3]))
            fr = jelly.RdfStreamFrame(rows=[jelly.RdfStreamRow(options=o)]).SerializeToString()
            cut = r.randint(0, len(b))
            out.append(b[:cut] + vi(len(fr)) + fr + b[cut:])
        else:
            # many empty frames / zero-length everything
            out.append(b"\x00" * r.randint(1, 5000) + (r.choice(base) if base and r.random() < 0.5 else b""))
    return out


@plan(
    "C17",
    "PA over hostile bytes (random; bit-flipped and spliced valid streams; declared table sizes up to 2^32-1; declared frame lengths up to "
    "2^63; quoted triples nested 50..800 deep; options in odd places; thousands of empty frames) fed to parse_jelly_flat and "
    "parse_jelly_grouped of both integrations in a subprocess under an address-space limit and a CPU-time watchdog (a wall-clock one far behind it): every input must end in a "
    "return or an ordinary exception, promptly and without ballooning; the ok/error outcome is compared with the model run on the same bytes "
    "(when protobuf itself accepts them). Non-trivial = an input on which some entry point got past the options row; distinct by byte string.",
    ["termination, survival of the interpreter and RSS of the real process (protobuf's C parser, CPython recursion) are runtime facts: monitored, not proved"],
)
def c17(ctx):
    out = []
    inputs = hostile_inputs(ctx, ctx.n(240, 4000))
    payload = json.dumps([b.hex() for b in inputs])
    env = dict(os.environ, PYTHONPATH=core.REPO, PYTHONHASHSEED="0")
    try:
        p = subprocess.run([sys.executable, WORKER], input=payload, capture_output=True, text=True, env=env, timeout=ctx.n(1200, 7200))
        lines = [json.loads(x) for x in p.stdout.splitlines() if x.startswith("{")]
        rc = p.returncode
    except subprocess.TimeoutExpired:
        lines, rc = [], "timeout"
    done = {x["i"]: x for x in lines}
    if rc != 0 or len(done) != len(inputs):
        first = min(set(range(len(inputs))) - set(done)) if len(done) != len(inputs) else None
        out.append({"family": "PA", "mode": "hostile", "bytes": hx(inputs[first]) if first is not None else "x", "corresponds": True, "impl": [rc, len(done)], "model": [],
                    "property_violation": {"what": f"the parsing subprocess did not survive input {first} (exit {rc}): hang, crash or memory balloon"}, "signature": {}})
    cmds, idx = [], []
    prev_rss = min([x["rss_mb"] for x in lines] or [0])
    for i, b in enumerate(inputs):
        x = done.get(i)
        if not x:
            continue
        ctx.report.evaluations += 1
        if x["max_s"] > x.get("budget_s", 5.0 + len(b) / 20_000):  # promptly: a constant plus time in proportion to the input -- CPU seconds of the parsing process, in units calibrated at that moment (hostile_worker.calibrate)
            out.append({"family": "PA", "mode": "hostile", "bytes": hx(b), "corresponds": True, "impl": x, "model": [],
                        "property_violation": {"what": f"parsing took {x['max_s']:.1f}s of CPU time (budget {x.get('budget_s')}s at {x.get('cpu_rate_us_per_byte')} us per byte of a benign input)"}, "signature": {}})
        if any(v in ("err:MemoryError", "hang") for v in x["outcomes"].values()):
            out.append({"family": "PA", "mode": "hostile", "bytes": hx(b), "corresponds": True, "impl": x, "model": [],
                        "property_violation": {"what": f"a {len(b)}-byte input exhausted memory or time: {x['outcomes']}"}, "signature": {}})
        elif x.get("peak_alloc_mb", 0) > 64 and len(b) < 1_000_000:
            out.append({"family": "PA", "mode": "hostile", "bytes": hx(b), "corresponds": True, "impl": x, "model": [],
                        "property_violation": {"what": f"a {len(b)}-byte input made the parser allocate {x['peak_alloc_mb']} MB at once (memory in proportion to a size declared in the input, not to the input): {x['outcomes']}"}, "signature": {}})
        elif x["rss_mb"] > prev_rss + 300 and x["rss_mb"] > 500:
            out.append({"family": "PA", "mode": "hostile", "bytes": hx(b), "corresponds": True, "impl": x, "model": [],
                        "property_violation": {"what": f"peak RSS grew to {x['rss_mb']} MB on a {len(b)}-byte input"}, "signature": {}})
        prev_rss = max(prev_rss, x["rss_mb"])
        if any(v.startswith("ok") and int(v.split(":")[1]) > 0 for v in x["outcomes"].values()):
            ctx.report.nontrivial.add(hx(b))
        ctx.report.count("C17/outcome/" + "/".join(sorted(set(v.split(":")[0] for v in x["outcomes"].values()))))
        # model comparison where protobuf accepts the framing (canonical re-serialisation) and the input is small
        if x.get("canon") is not None and len(x["canon"]) < 4000:
            cmds.append("PA g 0 0 x" + x["canon"])
            idx.append(i)
    for i, rep in zip(idx, ctx.driver.ask_many(cmds)):
        pre, mend, mframes = core.parse_pa_reply(rep)
        x = done[i]
        impl_end = "E" if x["canon_outcome"].startswith("ok") else "R"
        if impl_end != mend:
            out.append({"family": "PA", "ig": "g", "mode": "flat", "bytes": "x" + x["canon"], "corresponds": False, "impl": [x["canon_outcome"]], "model": [mend],
                        "property_violation": None, "signature": {}})
    ctx.report.sample({"family": "PA/hostile", "inputs": len(inputs), "classes": "random, bit-flipped, spliced, huge sizes, huge lengths, deep nesting, odd options, empty frames"})
    return out


# ------------------------------------------------------------------ C18
@plan(
    "C18",
    "EN with presets in which some enabled table has fewer slots than one statement needs (prefixes 1..k-1, datatypes 1..k-1 with generalized "
    "literals, names 8..k-1 with nested quoted triples of up to 9 IRIs), both stream_frames and flat_stream_to_file: the writer must raise or the "
    "bytes must decode (pyjelly's parser and the extracted Spec referee) to the input. Non-trivial = a case where some statement really exceeds a "
    "table; distinct by (configuration, statements).",
)
def c18(ctx):
    out = []
    import gen as genmod

    for i in range(ctx.n(700, 12000)):
        case = fam_encode.gen_generic_case(ctx, None, fits=False, entry="stream_frames" if i % 4 else "flat_file")
        cfg = case["cfg"]
        need = genmod.table_need(case["stmts"])
        ctx.report.evaluations += 1
        exceeds = (need[0] > cfg.maxn) or (cfg.maxp and need[1] > cfg.maxp) or (cfg.maxd and need[2] > cfg.maxd)
        ctx.report.count(f"C18/exceeds={bool(exceeds)}")
        if exceeds:
            ctx.report.nontrivial.add((cfg.tok(), tuple(core_stmt_tok(s) for s in case["stmts"])))
        d = fam_encode.run_case(ctx, case)
        if i < 2:
            ctx.report.sample({"family": "EN/undersized", "cfg": cfg.as_json(), "need(names,prefixes,datatypes)": need, "agreed": d is None})
        if d:
            out.append(d)
    return out


# ------------------------------------------------------------------ C19
def audit_reply(rep: str) -> dict | None:
    if rep.startswith("invalid"):
        return None
    if rep.startswith("DRIVER-ERROR"):
        raise RuntimeError("the model driver could not evaluate the audit: " + rep[:200])
    return {k: int(v) for k, v in (kv.split("=") for kv in rep.split())}


@plan(
    "C19",
    "EN for both integrations; every stream the implementation writes is audited row by row by the extracted Audit.audit (state of the Spec "
    "referee): no entry row for a string resident in that table, no slot present whose term equals the previous statement's term, no explicit id "
    "where the delta rule allows 0, no repeated graph start for consecutive equal graph names (generic GRAPHS); with tables larger than the "
    "number of distinct strings, entries == distinct strings. Non-trivial = a stream with at least one hit and one repeated term; distinct by "
    "(configuration, statements).",
)
def c19(ctx):
    out = []
    r = ctx.rng
    # long runs of quads in one graph through the generic GRAPHS path: one graph start per run
    for run_lens in ([300, 5], [2100, 3], [5000]) if ctx.quick else ([300, 5], [2100, 3], [5000], [20000, 2], [70000]):
        g = genmod.Gen(r, nprefix=2, nname=5, ndt=1)
        stmts = []
        for gi, n in enumerate(run_lens):
            gname = gs.IRI(f"http://g.org/{gi}")
            for q in g.statements(n, 4, typed=False, quoted=False):
                stmts.append(gs.Quad(q.s, q.p, q.o, gname))
        cfg = Cfg(cls="G", logical=2, frame_size=250)
        impl = fam_encode.impl_run(cfg, stmts, [], False, "stream_frames", {})
        ctx.report.evaluations += 1
        ctx.report.nontrivial.add(("long-runs", tuple(run_lens)))
        if not impl["raised"]:
            au = audit_reply(ctx.driver.ask("AU " + hx(fam_encode.delimited(impl["frames"]))))
            if au is None or au["gstart"] or au["redundant"] or au["elision"] or au["zero"]:
                out.append({"family": "EN", "entry": "stream_frames", "cfg": cfg.as_json(), "stmts": [f"{n} quads in graph {i}" for i, n in enumerate(run_lens)],
                            "corresponds": True, "impl": "", "model": str(au),
                            "property_violation": {"what": f"runs of {run_lens} consecutive quads per graph name: audit {au} (a graph start repeats the previous graph name, or an entry / term / id was sent needlessly)"},
                            "signature": {}})
    for i in range(ctx.n(500, 10000)):
        rd = r.random() < 0.3
        if rd:
            from checks import rdflib_case

            case = rdflib_case(ctx, entry="stream_frames")
            cfg = case["cfg"]
            case["stmts"] = [type(st)(*[core.norm_term(t) for t in st]) for st in case["stmts"]]
            d = fam_rdflib.run_rdflib_case(ctx, case)
            try:
                stream = make_stream(cfg)
                from pyjelly.integrations.rdflib import serialize as rser

                data_in = fam_rdflib.build(case["stmts"], case.get("ns", []), case["data"] == "dataset", case.get("empty_graphs", ())) if case["data"] != "gen" else iter(fam_rdflib.gen_tuples(case["stmts"]))
                frs = [f.SerializeToString(deterministic=True) for f in rser.stream_frames(stream, data_in)]
                impl = {"raised": False, "frames": frs}
            except Exception:  # noqa: BLE001
                impl = {"raised": True, "frames": []}
        else:
            case = fam_encode.gen_generic_case(ctx, None)
            cfg = case["cfg"]
            # "equals" in C19 is equality of the terms as the writer API sees them; a literal typed
            # xsd:string and the plain literal are different terms there but the same on the wire,
            # so the audited inputs do not mix the two spellings
            case["stmts"] = [type(st)(*[core.norm_term(t) for t in st]) for st in case["stmts"]]
            d = fam_encode.run_case(ctx, case)
            impl = fam_encode.impl_run(cfg, case["stmts"], case["ns"], case["sink"], "stream_frames", case)
        ctx.report.evaluations += 1
        if d and d.get("property_violation"):
            out.append(d)
            continue
        if impl["raised"] or not impl["frames"]:
            if d:
                out.append(d)
            continue
        data = fam_encode.delimited(impl["frames"])
        au = audit_reply(ctx.driver.ask("AU " + hx(data)))
        pv = None
        if au is None:
            pv = "the referee rejects the stream, so it cannot be audited"
        else:
            if au["redundant"]:
                pv = f"{au['redundant']} lookup entries were transmitted for strings resident in the table"
            elif au["elision"]:
                pv = f"{au['elision']} terms equal to the previous statement's term in the same slot were not elided"
            elif au["zero"]:
                pv = f"{au['zero']} ids were written explicitly where the delta rule allows 0"
            elif au["gstart"] and not rd:
                pv = f"{au['gstart']} graph starts repeat the graph name of the previous graph"
            if au["entries"] or au["elision"] == 0:
                if len(case["stmts"]) > 2:
                    ctx.report.nontrivial.add((cfg.tok(), tuple(core_stmt_tok(s) for s in case["stmts"])))
        if pv:
            out.append({"family": "EN" if not rd else "ER", "entry": "stream_frames", "cfg": cfg.as_json(), "stmts": [core_stmt_tok(s) for s in case["stmts"]],
                        "ns": case.get("ns", []), "sink": case.get("sink", False), "data": case.get("data"), "corresponds": d is None, "impl": hx(data)[:400], "model": str(au),
                        "property_violation": {"what": pv}, "signature": {}})
        elif d:
            out.append(d)
        if i < 2:
            ctx.report.sample({"family": "EN/audit", "cfg": cfg.as_json(), "audit": au})
    return out


# ------------------------------------------------------------------ C20
def poison_ops(r, cls: str, stmts: list, maxd: int):
    """Statement-by-statement ops with some statements made unencodable."""
    ops = []
    bad_positions = 0
    for st in stmts:
        terms = list(st)
        how = None
        if r.random() < 0.3:
            how = r.choice(["other", "typed" if maxd == 0 else "other", "short", "nested"])
            slot = r.randrange(len(terms))
            if how == "other":
                terms[slot] = core.Other()
            elif how == "typed":
                terms[slot if slot < 3 else 2] = gs.Literal("1", datatype="http://dt.org/x")
            elif how == "short":
                terms = terms[: r.randint(0, len(terms) - 1)]
            elif how == "nested":
                s3 = slot if slot < 3 else 2
                terms[s3] = gs.Triple(gs.IRI("http://n/a"), gs.IRI("http://n/b"), core.Other())
            bad_positions += 1
        ops.append((tuple(terms), how))
    return ops, bad_positions


def op_tok(cls: str, terms) -> str:
    k = "t" if cls == "T" else "q"
    return f"{k} {core.stmt_tok(terms)}"


@plan(
    "C20",
    "ST: TripleStream / QuadStream / GraphStream driven statement by statement with catch-and-continue; at random positions a statement is made "
    "unencodable (unknown term type, typed literal with the datatype table disabled, short tuple, unknown term nested in a quoted triple) in a random "
    "slot; the frames produced (plus a final flush) are decoded by the extracted Spec referee: either they decode to exactly the accepted statements "
    "in order, or the stream refused every statement after the first failure; what was written before stays a valid prefix; step-by-step outcome "
    "compared with the model. Non-trivial = a run with at least one rejected statement followed by another statement; distinct by (configuration, ops).",
)
def c20(ctx):
    out = []
    r = ctx.rng
    for i in range(ctx.n(400, 8000)):
        cls = r.choice("TQG")
        ar = 3 if cls == "T" else 4
        g = genmod.Gen(r, nprefix=r.randint(1, 4), nname=r.randint(2, 6), ndt=2)
        maxd0 = r.random() < 0.3
        stmts = g.statements(r.choice([2, 4, 7, 12]), ar, typed=not maxd0)
        need = genmod.table_need(stmts)
        cfg = genmod.random_cfg(r, cls, (need[0] + 3, need[1] + 1, need[2] + 1))
        cfg.maxd = 0 if maxd0 else max(cfg.maxd, need[2] + 1)
        cfg.delim = True
        cfg.frame_size = r.choice([1, 2, 5, 250])
        ops, nbad = poison_ops(r, cls, stmts, cfg.maxd)
        try:
            stream = make_stream(cfg)
        except Exception:  # noqa: BLE001
            continue
        stream.enroll()
        frames: list[bytes] = []
        per_op: list[str] = []
        accepted: list = []
        first_fail = None
        after_fail_accept = False
        model_ops = []
        for k, (terms, how) in enumerate(ops):
            toks: list[str] = []
            try:
                if cls == "T":
                    model_ops.append("t " + core.stmt_tok(terms))
                    fr = stream.triple(terms)
                    if fr:
                        toks.append(core.frame_tok(fr))
                elif cls == "Q":
                    model_ops.append("q " + core.stmt_tok(terms))
                    fr = stream.quad(terms)
                    if fr:
                        toks.append(core.frame_tok(fr))
                else:
                    gterm = terms[3] if len(terms) > 3 else core.Other()
                    model_ops.append(f"g {core.term_tok(gterm)} 1 {core.stmt_tok(terms[:3])}")
                    for fr in stream.graph(gterm, [terms[:3]]):
                        toks.append(core.frame_tok(fr))
                accepted.append(terms)
                if first_fail is not None:
                    after_fail_accept = True
            except Exception:  # noqa: BLE001
                toks.append("R")
                if first_fail is None:
                    first_fail = k
            per_op.append("{ " + " ".join(toks) + " }")
            frames += [core.unhx(t[1:]) for t in toks if t.startswith("Fx")]
        # final flush
        toks = []
        fr = stream.flow.to_stream_frame()
        if fr:
            toks.append(core.frame_tok(fr))
            frames.append(fr.SerializeToString(deterministic=True))
        per_op.append("{ " + " ".join(toks) + " }")
        model_ops.append("f")
        impl_trace = " ".join(per_op) + " " + core.stream_end_tok(stream)
        model = ctx.driver.ask(f"ST {cfg.tok()} {len(model_ops)} " + " ".join(model_ops))
        same = impl_trace == model
        ctx.report.evaluations += 1
        if first_fail is not None and first_fail < len(ops) - 1:
            ctx.report.nontrivial.add((cfg.tok(), tuple(model_ops)))
        ctx.report.count(f"C20/{cls}/rejected={min(nbad, 3)}")
        # the property on what was written
        pv = None
        data = fam_encode.delimited(frames)
        status, cls_, evs = fam_encode.spec_events(ctx.driver.ask("SB " + hx(data))) if frames else ("valid", None, [])
        if status != "valid":
            pv = f"after a rejected statement the written stream is no longer valid ({cls_})"
        else:
            exp = fam_encode.expected_events([t for t in accepted], "T" if cls == "T" else "Q")
            if after_fail_accept and evs != exp:
                pv = "statements accepted after a rejected one decode differently from what was submitted"
            elif not after_fail_accept and evs != exp[: len(evs)]:
                pv = "what was written before the failure does not decode to the statements accepted before it"
        if pv or not same:
            out.append({"family": "ST", "cfg": cfg.as_json(), "ops": model_ops, "corresponds": same, "impl": impl_trace[:1200], "model": model[:1200],
                        "property_violation": None if not pv else {"what": pv}, "signature": {}})
        if i < 2:
            ctx.report.sample({"family": "ST", "cfg": cfg.as_json(), "ops": model_ops[:4], "first_failure_at": first_fail})
    return out
