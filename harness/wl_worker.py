"""wl_worker.py -- run a fixed set of serializer workloads in this process and print one digest.
Used by C12 to compare processes started with different PYTHONHASHSEED values."""
import hashlib
import os
import random
import sys

sys.path.insert(0, os.path.dirname(__file__))
import core  # noqa: E402
import checks_c  # noqa: E402

if sys.argv[1] == "--single":
    # one workload alone in this fresh process: stdin = JSON {cfg, stmts (tokens)}
    import json

    import checks

    req = json.loads(sys.stdin.read())
    cfg = core.Cfg(**{k: (tuple(v) if k == "flow" and v is not None else v) for k, v in req["cfg"].items()})
    stmts = [checks.parse_stmt_tok(t) for t in req["stmts"]]
    print(checks_c.run_alone(cfg, stmts).hex())
    sys.exit(0)

seed, n = int(sys.argv[1]), int(sys.argv[2])
r = random.Random(seed * 7919 + 17)
h = hashlib.sha256()
for i in range(n):
    cfg, stmts = checks_c.workload(r, i)
    h.update(checks_c.run_alone(cfg, stmts))
    # rdflib sets and dicts are involved on that side
    if i % 3 == 0:
        import fam_rdflib

        ar = len(stmts[0])
        import fam_parse
        import gen as genmod

        g = genmod.Gen(r)
        st2 = fam_parse.rdf11_statements(r, g, 6, ar)
        d = fam_rdflib.build(st2, [], ar == 4)
        cfg.ig, cfg.gen, cfg.star = "r", False, False
        cfg.logical = 1 if ar == 3 else 2
        cfg.cls = "T" if ar == 3 else "Q"
        cfg.maxn, cfg.maxp, cfg.maxd = 4000, 150, 32   # sized for any statement of st2
        try:
            out = d.serialize(encoding="jelly", format="jelly", options=core.make_options(cfg))
            # a Dataset/Graph iterates in hash order: compare the parsed SET, not the bytes
            import io

            from pyjelly.integrations.rdflib import parse as rparse

            items = sorted(fam_parse.rdflib_event_tok(x) for x in rparse.parse_jelly_flat(io.BytesIO(out)))
            h.update("\n".join(items).encode())
        except Exception as e:  # noqa: BLE001
            h.update(b"ERR" + type(e).__name__.encode())
print(h.hexdigest())
