"""fam_parse.py -- family PA/DE: the parsing entry points of both integrations against
model/Decoder.v (+ Wire.v framing), on streams from the reference encoder, from pyjelly itself,
re-partitioned, truncated, mutated; with the oracles of C04/C07/C10/C15/C16."""
from __future__ import annotations

import io
from contextvars import ContextVar

import core
import gen as genmod
import refenc
from core import event_tok, gparse, gs, hx, norm_term, unhx
from fam_encode import norm_event_toks, spec_events


# ------------------------------------------------------------------ rdflib canonicalisation
def rdflib_term_tok(t) -> str:
    import rdflib
    from rdflib.graph import DATASET_DEFAULT_GRAPH_ID

    if t is None:
        return "NONE"
    if t == DATASET_DEFAULT_GRAPH_ID:
        return "D"
    if isinstance(t, rdflib.URIRef):
        return "I " + hx(str(t))
    if isinstance(t, rdflib.BNode):
        return "B " + hx(str(t))
    if isinstance(t, rdflib.Literal):
        dt = str(t.datatype) if t.datatype is not None else None
        return f"L {hx(str(t))} {core.ohx(t.language)} {core.ohx(dt)}"
    return "O"


def rdflib_event_tok(item) -> str:
    from pyjelly.integrations.rdflib import parse as rparse

    if isinstance(item, rparse.Prefix):
        return f"EP {hx(item.prefix)} {hx(str(item.iri))}"
    if isinstance(item, rparse.Quad) or (isinstance(item, tuple) and len(item) == 4):
        return "EQ " + " ".join(rdflib_term_tok(x) for x in item)
    return "ET " + " ".join(rdflib_term_tok(x) for x in item)


# ------------------------------------------------------------------ implementation side
def impl_flat(ig: str, data: bytes, strict: bool = False, src=None):
    """-> (end 'E'|'R', [event tokens])"""
    inp = src if src is not None else io.BytesIO(data)
    evs, end = [], "E"
    try:
        if ig == "g":
            for item in gparse.parse_jelly_flat(inp, logical_type_strict=strict):
                evs.append(event_tok(item))
        else:
            from pyjelly.integrations.rdflib import parse as rparse

            for item in rparse.parse_jelly_flat(inp, logical_type_strict=strict):
                evs.append(rdflib_event_tok(item))
    except Exception as e:  # noqa: BLE001
        end = "R"
        evs_err = type(e).__name__
        return end, evs, evs_err
    return end, evs, None


def impl_grouped(ig: str, data: bytes, strict: bool = False):
    """-> (end, [(metadata list, [statement tokens in order], [prefix tokens])])"""
    md: ContextVar = ContextVar("md")
    sinks, end = [], "E"
    try:
        if ig == "g":
            for sink in gparse.parse_jelly_grouped(io.BytesIO(data), logical_type_strict=strict, frame_metadata=md):
                m = sorted((k.encode(), bytes(v)) for k, v in dict(md.get()).items())
                sinks.append((m, [event_tok(s) for s in sink], [f"EP {hx(k)} {hx(v._iri)}" for k, v in sink.namespaces]))
        else:
            from pyjelly.integrations.rdflib import parse as rparse

            for sink in rparse.parse_jelly_grouped(io.BytesIO(data), logical_type_strict=strict, frame_metadata=md):
                m = sorted((k.encode(), bytes(v)) for k, v in dict(md.get()).items())
                import rdflib

                if isinstance(sink, rdflib.Dataset):
                    st = sorted("EQ " + " ".join(rdflib_term_tok(x) for x in (s, p, o, g)) for s, p, o, g in sink.quads())
                else:
                    st = sorted("ET " + " ".join(rdflib_term_tok(x) for x in t) for t in sink)
                sinks.append((m, st, None))
    except Exception:  # noqa: BLE001
        end = "R"
    return end, sinks


def impl_to_graph(ig: str, data: bytes):
    """-> (end, sorted/ordered statement tokens)"""
    try:
        if ig == "g":
            sink = gparse.parse_jelly_to_graph(io.BytesIO(data))
            return "E", [event_tok(s) for s in sink], [f"EP {hx(k)} {hx(v._iri)}" for k, v in sink.namespaces]
        import rdflib
        from pyjelly.integrations.rdflib import parse as rparse

        sink = rparse.parse_jelly_to_graph(io.BytesIO(data))
        if isinstance(sink, rdflib.Dataset):
            st = sorted("EQ " + " ".join(rdflib_term_tok(x) for x in (s, p, o, g)) for s, p, o, g in sink.quads())
        else:
            st = sorted("ET " + " ".join(rdflib_term_tok(x) for x in t) for t in sink)
        return "E", st, None
    except Exception:  # noqa: BLE001
        return "R", [], None


# ------------------------------------------------------------------ model side
def model_parse(ctx, ig: str, grouped: bool, strict: bool, data: bytes):
    return core.parse_pa_reply(ctx.driver.ask(f"PA {ig} {1 if grouped else 0} {1 if strict else 0} {hx(data)}"))


def model_flat_events(frames) -> list[str]:
    return [e for md, evs, ok in frames for e in evs]


# ------------------------------------------------------------------ stream generation
_XSD = "http://www.w3.org/2001/XMLSchema#"
NONCANONICAL = [("008", _XSD + "integer"), ("+7", _XSD + "integer"), ("1.50", _XSD + "decimal"), ("1.0E0", _XSD + "double"),
                ("1", _XSD + "boolean"), ("0042", _XSD + "nonNegativeInteger")]


# literals whose lexical form the whiteSpace facet of their datatype would rewrite (xsd:normalizedString: replace; xsd:token: collapse):
# RDF terms like any other -- a reader must hand out the form that was sent
FACET = [("  a \t b  ", _XSD + "token"), (" x", _XSD + "token"), ("p  q", _XSD + "token"), ("l1\nl2", _XSD + "normalizedString"),
         ("tab\there", _XSD + "normalizedString"), ("plain", _XSD + "token"), (" kept as sent ", _XSD + "normalizedString")]


# one literal in several spellings of its language tag (one RDF term, one term for rdflib's ==; a reader hands out the spelling sent)
TAGCASE = [("chat", "fr"), ("chat", "FR"), ("chat", "Fr"), ("Chat", "fr-CA"), ("Chat", "fr-ca"), ("x", "EN"), ("x", "en"), ("x", "en-GB"), ("x", "EN-gb")]


def rdf11_statements(r, g: genmod.Gen, n: int, arity: int, noncanon_p: float = 0.15, facet_p: float = 0.0, tagcase_p: float = 0.0) -> list:
    """RDF 1.1 statements (s IRI|BNode, p IRI, o any non-quoted, g IRI|BNode|default) with
    literals rdflib does not normalise away... except the known "01" case which is kept."""
    out, prev = [], None

    def bn():
        if r.random() < 0.12:
            lab = r.choice(g.prefixes) + r.choice(g.names)   # the string of an IRI of the same stream
            if lab:
                return gs.BlankNode(lab)
        return gs.BlankNode(r.choice([b for b in genmod.BNODES if b]))

    def iri():
        while True:
            t = g.iri()
            if t._iri:
                return t

    def obj():
        if tagcase_p and r.random() < tagcase_p:
            lex, tag = r.choice(TAGCASE)
            return gs.Literal(lex, langtag=tag)
        if facet_p and r.random() < facet_p:
            lex, dt = r.choice(FACET)
            return gs.Literal(lex, datatype=dt)
        if r.random() < noncanon_p:
            # a typed literal whose lexical form is not the canonical one of its datatype: what the reader
            # hands out must be the form that was sent
            lex, dt = r.choice(NONCANONICAL)
            return gs.Literal(lex, datatype=dt)
        t = g.term(0, True, quoted=False)
        return bn() if isinstance(t, gs.BlankNode) else iri() if isinstance(t, gs.IRI) else t

    for _ in range(n):
        cur = []
        for i in range(arity):
            if prev is not None and r.random() < 0.5:
                cur.append(prev[i])
            elif i == 0:
                cur.append(iri() if r.random() < 0.7 else bn())
            elif i == 1:
                cur.append(iri())
            elif i == 2:
                po = prev[2] if prev is not None else None
                if isinstance(po, gs.Literal) and po._langtag is None and po._datatype in (None, genmod.XSD_STRING) and r.random() < 0.3:
                    # the same lexical form in the other spelling (plain <-> xsd:string): two API terms, one wire form
                    cur.append(gs.Literal(po._lex, datatype=None if po._datatype else genmod.XSD_STRING))
                else:
                    cur.append(obj())
            else:
                k = r.random()
                cur.append(gs.DefaultGraph if k < 0.3 else iri() if k < 0.8 else bn())
        st = gs.Triple(*cur) if arity == 3 else gs.Quad(*cur)
        out.append(st)
        prev = st
    return out


def ref_stream(ctx, rdf11: bool = False, phys: int | None = None, nd: bool | None = None, churn: bool | None = None,
               edge: bool | None = None, noncanon_p: float = 0.15, facet_p: float = 0.0, tagcase_p: float = 0.0):
    """One valid stream from the reference encoder -> dict(frames, events, bytes...) or None."""
    r = ctx.rng
    phys = phys or r.choice([1, 2, 3])
    ar = 3 if phys == 1 else 4
    if churn is None:
        churn = r.random() < 0.3
    g = genmod.Gen(r, nprefix=r.randint(1, 5), nname=r.randint(2, 8), ndt=r.randint(1, 3))
    if churn:
        # many namespaces sharing few local names: with tables as small as one statement needs, slots are
        # re-assigned all the time while the same (prefix id, name id) pairs keep coming back with other contents
        g = genmod.Gen(r, nprefix=r.randint(4, 7), nname=r.randint(2, 3), ndt=r.randint(1, 2))
    if rdf11:
        # BNODES with empty labels / empty IRIs are not RDF 1.1 material for rdflib
        stmts = rdf11_statements(r, g, r.choice([6, 10, 15] if churn else [1, 2, 4, 8, 15]), ar, noncanon_p, facet_p, tagcase_p)
    else:
        stmts = g.statements(r.choice([6, 10, 15] if churn else [1, 2, 4, 8, 15]), ar)
    need = genmod.table_need(stmts)
    maxd = 0 if not any(need[2:]) and r.random() < 0.3 else r.choice([max(1, need[2]), max(1, need[2]) + 1, 32, 4096])
    maxp = r.choice([0, max(1, need[1]), max(1, need[1]) + 1, 150])
    maxn = r.choice([max(8, need[0] + need[1]), max(8, need[0] + need[1]) + 2, 4000, 4096])
    if churn:
        maxp = r.choice([max(1, need[1]), max(1, need[1]), max(1, need[1]) + 1, 0])
        maxn = r.choice([max(8, need[0] + need[1]), 4000])
    if nd is None:
        nd = r.random() < 0.3
    version = 2 if nd else r.choice([0, 1, 1, 2])
    logical = r.choice([0, {1: 1, 2: 2, 3: 2}[phys], {1: 3, 2: 4, 3: 4}[phys]])
    # every fourth stream: freely chosen slots are the highest free ones, so the ids on the wire sit at the
    # top edge of the declared sizes (4096, 4095, ... in a full-size table)
    edge_p = r.choice([0.0, 0.0, 0.0, 0.9])
    if edge is not None:
        edge_p = 0.9 if edge else 0.0
    if edge:
        maxn = 4096
    elif edge_p and r.random() < 0.6:
        maxn = r.choice([4096, 4096, maxn])
    if edge_p and churn:
        # ... with room for every namespace, so that one local name (in a slot at the top edge) is
        # referred to under several resident prefix slots, back to back
        maxp = r.choice([maxp, 8, 150])
    enc = refenc.RefEncoder(r, phys, maxn, maxp, maxd, version=version, logical=logical,
                            name=r.choice(["", "näme"]), gen=not rdf11, star=not rdf11, edge_p=edge_p, natural_split_p=0.9 if churn else 0.0)
    ns = g.namespaces(r.randint(0, 2)) if nd else []
    try:
        enc.encode(stmts, ns)
    except OverflowError:
        return None
    frames = enc.frames()
    return {"enc": enc, "frames": frames, "events": enc.events, "stmts": stmts, "phys": phys,
            "cfg": {"phys": phys, "maxn": maxn, "maxp": maxp, "maxd": maxd, "version": version, "logical": logical}}


def check_against_referee(ctx, data: bytes, expected: list[str]) -> str | None:
    """The reference stream must be Valid for Spec with the intended events (guards the generator)."""
    status, cls_, evs = spec_events(ctx.driver.ask("SB " + hx(data)))
    if status != "valid":
        return f"referee: {status} {cls_}"
    if evs != norm_event_toks(expected):
        return "referee decodes other events than the reference encoder intended"
    return None


# ------------------------------------------------------------------ one parse case
def _observe(ctx, ig: str, mode: str, data: bytes, strict: bool):
    """The implementation's and the model's answers for one entry point."""
    if mode == "flat":
        return impl_flat(ig, data, strict), model_parse(ctx, ig, False, strict, data)
    if mode == "grouped":
        return impl_grouped(ig, data, strict), model_parse(ctx, ig, True, strict, data)
    return impl_to_graph(ig, data), model_parse(ctx, ig, False, False, data)


def _judge(ig: str, mode: str, raw, expected: list[str] | None, mapf=lambda e: e) -> dict | None:
    """Compare the two answers and the expectation; `mapf` is applied to what the model and the stream say (identity, or -- to
    classify a difference -- what a known behaviour of a library turns it into).  None = no difference."""
    impl, (pre, mend, mframes) = raw
    expected = None if expected is None else [mapf(e) for e in expected]
    d = None
    if mode == "flat":
        end, evs, errname = impl
        mevs = [mapf(e) for e in model_flat_events(mframes)]
        same = (end == mend) and (evs == mevs)
        pv = None
        if expected is not None:
            if end != "E":
                pv = f"{ig} parse_jelly_flat raised {errname} on a valid stream after {len(evs)} items"
            elif evs != expected:
                pv = first_diff(f"{ig} parse_jelly_flat", expected, evs)
        if not same or pv:
            d = {"impl": [end] + evs[:50], "model": [mend] + mevs[:50], "corresponds": same, "pv": pv}
    elif mode == "grouped":
        end, sinks = impl
        msinks = [(md, [mapf(e) for e in evs]) for md, evs, ok in mframes if ok]
        isk = []
        for m, st, pf in sinks:
            isk.append((m, st if ig == "g" else sorted(set(st))))
        msk = []
        for md, evs in msinks:
            sts = [e for e in evs if not e.startswith("EP ")]
            msk.append((sorted(md), sts if ig == "g" else sorted(set(sts))))
        same = (end == mend) and (isk == msk)
        pv = None
        if expected is not None and end == "E":
            flat = [e for e in expected if not e.startswith("EP ")]
            got = [e for m, st in isk for e in st]
            if ig == "g" and got != flat:
                pv = first_diff(f"{ig} parse_jelly_grouped (concatenated)", flat, got)
            if ig == "r" and sorted(set(got)) != sorted(set(flat)) and not rdf11_skip(flat):
                pv = f"{ig} parse_jelly_grouped: union of sinks differs from the statements of the stream"
        elif expected is not None:
            pv = f"{ig} parse_jelly_grouped raised on a valid stream"
        if not same or pv:
            d = {"impl": [end] + [str(x)[:200] for x in isk[:6]], "model": [mend] + [str(x)[:200] for x in msk[:6]], "corresponds": same, "pv": pv}
    elif mode == "to_graph":
        end, st, pf = impl
        mevs = [mapf(e) for e in model_flat_events(mframes) if not e.startswith("EP ")]
        if ig == "r":
            mevs = sorted(set(mevs))
        # to_graph loads everything: an error anywhere gives an error
        same = (end == mend) and (end == "R" or st == mevs)
        pv = None
        if expected is not None:
            flat = [e for e in expected if not e.startswith("EP ")]
            if ig == "r":
                flat = sorted(set(flat))
            if end != "E":
                pv = f"{ig} parse_jelly_to_graph raised on a valid stream"
            elif st != flat:
                pv = first_diff(f"{ig} parse_jelly_to_graph", flat, st)
        if not same or pv:
            d = {"impl": [end] + st[:50], "model": [mend] + mevs[:50], "corresponds": same, "pv": pv}
    return d


def run_parse_case(ctx, data: bytes, expected: list[str] | None, igs=("g",), modes=("flat",), strict=False,
                   family="PA", meta=None, rdf11=False) -> list[dict]:
    """Run the given entry points on both sides; `expected` = events the stream denotes (None: unknown).
    Returns disagreement dicts."""
    out = []
    for ig in igs:
        for mode in modes:
            raw = _observe(ctx, ig, mode, data, strict)
            d = _judge(ig, mode, raw, expected)
            if d:
                sig = {}
                if ig == "r" and expected is not None and any(facet_rewritten(e) != e for e in expected) \
                        and _judge(ig, mode, raw, expected, facet_rewritten) is None:
                    # the ONLY difference: rdflib's constructor applied the whiteSpace facet of xsd:token / xsd:normalizedString
                    sig = {"kind": "rdflib-whitespace-facet"}
                elif d["pv"] and ig == "r" and expected is not None and only_rdflib_normalisation(expected, d):
                    sig = {"kind": "rdflib-literal-normalisation"}
                out.append({"family": family, "ig": ig, "mode": mode, "strict": strict, "bytes": hx(data),
                            "impl": d["impl"], "model": d["model"], "corresponds": d["corresponds"],
                            "property_violation": None if not d["pv"] else {"what": d["pv"]},
                            "signature": sig, "meta": meta or {}})
    return out


_FACET_DTS = (_XSD + "token", _XSD + "normalizedString")


def facet_rewritten(tok: str) -> str:
    """The event token with the lexical form of every xsd:token / xsd:normalizedString literal as rdflib's constructor leaves it
    (normalize=False does not switch this off): \\t \\n \\r replaced by a space, for xsd:token also stripped and runs of spaces collapsed."""
    import re as _re

    t = tok.split(" ")
    i = 0
    while i < len(t):
        if t[i] == "L" and i + 3 < len(t):
            dt = None if t[i + 3] == "-" else unhx(t[i + 3]).decode()
            if dt in _FACET_DTS:
                lex = unhx(t[i + 1]).decode()
                lex = lex.replace("\t", " ").replace("\n", " ").replace("\r", " ")
                if dt == _FACET_DTS[0]:
                    lex = _re.sub(" +", " ", lex.strip())
                t[i + 1] = hx(lex)
            i += 4
        else:
            i += 1
    return " ".join(t)


def rdf11_skip(_flat) -> bool:
    return False


def first_diff(who: str, exp: list[str], got: list[str]) -> str:
    for i, (a, b) in enumerate(zip(exp, got)):
        if a != b:
            return f"{who}: item {i} is {b}, the stream denotes {a}"
    return f"{who}: {len(got)} items, the stream denotes {len(exp)}"


def rdflib_normalised(tok: str) -> str:
    """What rdflib itself turns a literal token into (lexical normalisation of known datatypes)."""
    import rdflib

    t = tok.split(" ")
    i = 0
    while i < len(t):
        if t[i] == "L":
            lex = unhx(t[i + 1]).decode()
            lang = None if t[i + 2] == "-" else unhx(t[i + 2]).decode()
            dt = None if t[i + 3] == "-" else unhx(t[i + 3]).decode()
            try:
                lit = rdflib.Literal(lex, lang=lang, datatype=dt)
                t[i + 1] = hx(str(lit))
            except Exception:  # noqa: BLE001
                pass
            i += 4
        else:
            i += 1
    return " ".join(t)


def only_rdflib_normalisation(expected: list[str], d: dict) -> bool:
    """True when the only difference is rdflib's own normalisation of literal lexical forms."""
    got = [x for x in d["impl"][1:]]
    exp = [rdflib_normalised(e) for e in expected if not e.startswith("EP ") or True]
    got_set = sorted(set(g for g in got))
    exp_cmp = exp if d["impl"] and got == exp else sorted(set(e for e in exp if (not e.startswith("EP ")) or any(g.startswith("EP ") for g in got)))
    return got == exp or got_set == exp_cmp or sorted(set(got)) == sorted(set(e for e in exp if not e.startswith("EP ")))
